package rules

import (
	"fmt"
	"sort"
	"strings"

	"golang.org/x/tools/go/callgraph"
	"golang.org/x/tools/go/ssa"

	"verif/checker/internal/an"
)

func init() {
	register(&PropRules{
		ID:      "C10",
		Explain: "The agent never wedges — structural preconditions of deadlock freedom decided over all goroutine roles and channel creation sites (inclusion-based channel points-to; roles = go-callees reaching a function without crossing `go`): (C10.1) wait-for: no blocking send/receive by a single-instance goroutine on a channel whose only counterpart operations run in that same goroutine, for every creation site the operand may denote (so a mode-dependent alias such as upgradeChan=updateChan is examined by itself), and no cycle among roles other than the request/response rendezvous; (C10.2) pairing: every Store.* client method makes a fresh unbuffered response channel, puts it into the request, sends the request and immediately receives on that channel; in the dispatcher every case answers exactly once on the request's own channel on every path (none when response==nil); (C10.3) the dispatcher loop has no exit, is started exactly once per successfully built store and has a case for every request channel created in NewStore and exposed by GetInterface; (C10.4) helpers never wait on the dispatcher and the dispatcher never waits on slow things: no process wait, HTTP client call or sleep reachable from the dispatcher or hooks goroutine without crossing `go`; the remote upgrader acquires its semaphore only in a select with default.",
		Undec:   []string{"actual schedules and timing; slowness versus wedge", "a stalled remote master beyond 'never on the dispatcher's path'", "internals of net/http, glauth/ldap and the sasl accept loop", "panics (C02.3/C18.3 cover the known panic preconditions)"},
		Run:     runC10,
		Floors:  map[string]int{"C10.1": 25, "C10.2": 18, "C10.3": 3, "C10.4": 3, "C10.5": 2},
	})
}

// goSiteInLoop: is the go statement that starts root inside a loop of a module function (multi-instance role)?
func multiInstance(p *an.Prog, root *ssa.Function) bool {
	n := p.CG.Nodes[root]
	if n == nil {
		return true
	}
	found := false
	for _, e := range n.In {
		g, ok := e.Site.(*ssa.Go)
		if !ok {
			continue
		}
		found = true
		if !p.InRepo(e.Caller.Func) {
			return true
		}
		// in a loop?
		cyc := map[*ssa.BasicBlock]bool{}
		for _, h := range loopHeaders(e.Caller.Func) {
			_ = h
		}
		for _, b := range e.Caller.Func.Blocks {
			// b on a cycle?
			seen := map[*ssa.BasicBlock]bool{}
			st := append([]*ssa.BasicBlock{}, b.Succs...)
			for len(st) > 0 {
				x := st[len(st)-1]
				st = st[:len(st)-1]
				if x == b {
					cyc[b] = true
					break
				}
				if seen[x] {
					continue
				}
				seen[x] = true
				st = append(st, x.Succs...)
			}
		}
		if cyc[g.Block()] {
			return true
		}
		// started from a function that itself runs in a multi-instance role
		for _, r := range p.Roles(e.Caller.Func, false) {
			if r != root && r != e.Caller.Func && !p.InRepo(r) && r.Name() != "main" {
				// e.g. started from a per-connection goroutine of a library
				if strings.Contains(r.String(), "conn") || strings.Contains(r.String(), "handleConnection") {
					return true
				}
			}
		}
	}
	return !found
}

func roleSet(p *an.Prog, f *ssa.Function) map[*ssa.Function]bool {
	m := map[*ssa.Function]bool{}
	for _, r := range p.Roles(f, false) {
		m[r] = true
	}
	return m
}

func opKey(p *an.Prog, op an.ChanOp, m *ssa.MakeChan) string {
	d := op.Desc
	d = strings.TrimPrefix(d, "field:cmd/whawty-auth.")
	if i := strings.LastIndex(d, ":"); i >= 0 && (strings.HasPrefix(d, "param:") || strings.HasPrefix(d, "local:") || strings.HasPrefix(d, "cell:")) {
		d = d[:strings.Index(d, ":")] + d[i:]
	}
	site := "?"
	if m != nil {
		site = fnKey(m.Parent()) + fmt.Sprintf("/cap%d", an.ChanCap(m))
	}
	return fmt.Sprintf("%s|%s %s|made-in=%s", fnKey(op.Fn), op.Kind, d, site)
}

func runC10(c *an.Ctx, p *an.Prog, thorough bool) {
	ops := p.ChanOps()
	c.Stats["channel_operations"] += len(ops)
	sitesSeen := map[*ssa.MakeChan]bool{}
	for _, o := range ops {
		for _, m := range o.Sites {
			sitesSeen[m] = true
		}
	}
	c.Stats["channel_creation_sites"] += len(sitesSeen)
	c.Stats["go_sites"] += len(p.GoSites())

	// response channels (rendezvous) are those made in Store.* client methods that pass C10.2
	rendezvous := c102(c, p)

	// ---- C10.1 wait-for ----
	type edge struct{ from, to *ssa.Function }
	wait := map[edge]string{}
	waitSites := map[edge]map[*ssa.MakeChan]bool{}
	ord := &ordinal{}
	for _, o := range ops {
		if !o.Blocking || o.InSelect {
			continue // a blocking select with several cases is the goroutine's idle wait; selects with default do not block
		}
		if len(o.Sites) == 0 {
			continue // channels created outside module code (timers, signals)
		}
		mine := roleSet(p, o.Fn)
		for _, m := range o.Sites {
			key := ord.next(opKey(p, o, m))
			want := "recv"
			if o.Kind == "recv" {
				want = "send"
			}
			var cps []an.ChanOp
			for _, q := range ops {
				if q.Kind != want {
					continue
				}
				for _, qm := range q.Sites {
					if qm == m {
						cps = append(cps, q)
					}
				}
			}
			if len(cps) == 0 {
				c.Fail("C10.1", key, p.InstrPos(o.In), fmt.Sprintf("blocking %s on a channel (made at %s) that has no %s anywhere in the module", o.Kind, p.InstrPos(m), want))
				continue
			}
			// roles of counterparts
			other := map[*ssa.Function]bool{}
			for _, q := range cps {
				for r := range roleSet(p, q.Fn) {
					other[r] = true
				}
			}
			selfOnly := true
			for r := range other {
				if !mine[r] {
					selfOnly = false
				}
			}
			single := len(mine) == 1
			var me *ssa.Function
			for r := range mine {
				me = r
			}
			if selfOnly && single && !multiInstance(p, me) {
				var where []string
				for _, q := range cps {
					where = append(where, fnKey(q.Fn)+" at "+p.InstrPos(q.In))
				}
				c.Fail("C10.1", key, p.InstrPos(o.In), fmt.Sprintf("goroutine %s performs a blocking %s on the channel made at %s (capacity %d) whose only %s operations run in that same goroutine (%s): once the buffer is full it waits for itself forever", fnKey(me), o.Kind, p.InstrPos(m), an.ChanCap(m), want, strings.Join(uniqS(where), ", ")))
				continue
			}
			if !rendezvous[m] {
				for r := range mine {
					for q := range other {
						if q != r {
							wait[edge{r, q}] = fmt.Sprintf("%s %s at %s", fnKey(o.Fn), o.Kind, p.InstrPos(o.In))
							if waitSites[edge{r, q}] == nil {
								waitSites[edge{r, q}] = map[*ssa.MakeChan]bool{}
							}
							waitSites[edge{r, q}][m] = true
						}
					}
				}
			}
			c.OK("C10.1", key, p.InstrPos(o.In), fmt.Sprintf("blocking %s by {%s}; %s side runs in {%s}", o.Kind, joinS(an.RoleNames(p.Roles(o.Fn, false))), want, joinS(fnSetNames(other))))
		}
	}
	// cycles in the wait-for graph (rendezvous channels excluded)
	adj := map[*ssa.Function][]*ssa.Function{}
	for e := range wait {
		adj[e.from] = append(adj[e.from], e.to)
	}
	var cyc []string
	for start := range adj {
		// DFS for a path back to start
		seen := map[*ssa.Function]bool{}
		var dfs func(x *ssa.Function, path []string) bool
		dfs = func(x *ssa.Function, path []string) bool {
			for _, y := range adj[x] {
				if y == start {
					cyc = append(cyc, strings.Join(append(path, fnKey(y)), " -> "))
					return true
				}
				if !seen[y] {
					seen[y] = true
					if dfs(y, append(path, fnKey(y))) {
						return true
					}
				}
			}
			return false
		}
		dfs(start, []string{fnKey(start)})
	}
	sort.Strings(cyc)
	// cycles through multi-instance library roles (a handler goroutine both sends requests and could be a receiver) are
	// only reported when they involve a single-instance module goroutine twice
	// a sender blocked on a full channel and its receiver blocked on the same channel being empty cannot
	// coexist: two-role cycles whose both directions go through one and the same channel are not deadlocks
	{
		var keep []string
		for _, cy := range cyc {
			parts := strings.Split(cy, " -> ")
			if len(parts) == 3 {
				var a, b *ssa.Function
				for e := range wait {
					if fnKey(e.from) == parts[0] && fnKey(e.to) == parts[1] {
						a, b = e.from, e.to
					}
				}
				if a != nil {
					ab, ba := waitSites[edge{a, b}], waitSites[edge{b, a}]
					distinct := false
					for m1 := range ab {
						for m2 := range ba {
							if m1 != m2 {
								distinct = true
							}
						}
					}
					if !distinct {
						continue
					}
				}
			}
			keep = append(keep, cy)
		}
		cyc = keep
	}
	var real []string
	for _, cy := range cyc {
		if strings.Contains(cy, "dispatchRequests") || strings.Contains(cy, "HooksCaller") || strings.Contains(cy, "Upgrader") {
			real = append(real, cy)
		}
	}
	c.Check(len(real) == 0, "C10.1", "wait-for-cycles", "-", fmt.Sprintf("no cycle among %d wait-for edges between goroutine roles (request/response rendezvous exempted by C10.2)", len(wait)), "wait-for cycle: "+strings.Join(uniqS(real), "; "))

	c103(c, p)
	c104(c, p)
	c105(c, p)
}

// c105: the frontends keep accepting: the saslauthd accept loop may only leave on an error that is not temporary
// (EMFILE/ENFILE/ECONNABORTED from accept are Temporary(); a loop that returns on them is dead for good while
// clients keep queueing in the listen backlog).
func c105(c *an.Ctx, p *an.Prog) {
	run := p.Method("/sasl", "Server", "Run")
	if !need(c, "C10.5", run, "sasl.(*Server).Run") {
		return
	}
	var bad []string
	nret := 0
	hdrs := loopHeaders(run)
	if len(hdrs) == 0 {
		bad = append(bad, "no accept loop")
	}
	an.EnumPaths(run, nil, nil, func(s *an.PathState) {
		ret := lastReturn(s)
		if ret == nil {
			return
		}
		nret++
		// the returned error is Accept's; the path must have excluded "temporary"
		var acc *an.Term
		for _, e := range s.Events {
			if e.Kind == "call" && strings.HasSuffix(e.Callee, "net.Listener.Accept") {
				acc = e.Res
			}
		}
		if acc == nil {
			bad = append(bad, "Run returns without having called Accept (path "+s.BlockPath()+")")
			return
		}
		notTemp := false
		for _, a := range s.Atoms {
			if a.Op == "false" && a.A.Op == "call" && strings.HasSuffix(a.A.Aux, ".Temporary") {
				notTemp = true
			}
			// not a *net.OpError / net.Error at all
			if a.Op == "false" && a.A.Op == "extract" && a.A.Aux == "1" && a.A.Args[0].Aux == "typeassert" {
				notTemp = true
			}
		}
		if !notTemp {
			bad = append(bad, "the accept loop ends on an error that was not shown to be non-temporary (path "+s.BlockPath()+" ["+s.FactsString()+"]): one EMFILE would stop the frontend for good")
		}
	})
	c.Check(len(bad) == 0 && nret > 0, "C10.5", fnKey(run)+"|accept-loop-survives-temporary-errors", p.Pos(run.Pos()), fmt.Sprintf("%d return paths, each only for non-temporary accept errors; temporary ones continue the loop", nret), strings.Join(uniqS(bad), "; "))
	// listeners of the agent are started in their own goroutines and the SASL one only ends with Run
	n := 0
	for _, name := range []string{"runSaslAuthSocket", "runSaslAuthSocketListener"} {
		fn := p.Func("/cmd/whawty-auth", name)
		if fn == nil {
			continue
		}
		n++
		if len(an.CallsTo(fn, "(*"+saslPkg+".Server).Run")) != 1 {
			c.Fail("C10.5", fnKey(fn)+"|runs-server", p.Pos(fn.Pos()), "the listener function does not run the sasl server exactly once")
		} else {
			c.OK("C10.5", fnKey(fn)+"|runs-server", p.Pos(fn.Pos()), "runs sasl.Server.Run until it ends")
		}
	}
	if n == 0 {
		c.Undecided("C10.5", "sasl-listeners", "-", "UNRESOLVED: no saslauthd listener function found")
	}
}

func fnSetNames(m map[*ssa.Function]bool) []string {
	var o []string
	for f := range m {
		o = append(o, an.FnName(f))
	}
	sort.Strings(o)
	return o
}

// c102 checks the request/response pairing; returns the creation sites of response channels that satisfy it.
func c102(c *an.Ctx, p *an.Prog) map[*ssa.MakeChan]bool {
	rv := map[*ssa.MakeChan]bool{}
	// client side
	nClients := 0
	for _, fn := range pkgFns(p, mainPkg) {
		if fn.Signature.Recv() == nil || !isNamed(fn.Signature.Recv().Type(), mainPkg, "Store") {
			continue
		}
		nClients++
		var bad []string
		var mk *ssa.MakeChan
		er := an.EnumPaths(fn, nil, nil, func(s *an.PathState) {
			var send, recv *an.Event
			nBlock := 0
			for i := range s.Events {
				e := &s.Events[i]
				switch e.Kind {
				case "send":
					send = e
					nBlock++
				case "recv":
					recv = e
					nBlock++
				case "select", "go":
					bad = append(bad, "unexpected "+e.Kind+" in a client method")
				case "call":
					if e.Fn != nil && p.InRepo(e.Fn) {
						bad = append(bad, "client method calls "+shortName(e.Callee)+" between send and receive")
					}
				}
			}
			if send == nil || recv == nil || nBlock != 2 {
				bad = append(bad, fmt.Sprintf("expected exactly one send and one receive, found %d channel operations", nBlock))
				return
			}
			if indexOfInstr(s.Events, send.In) > indexOfInstr(s.Events, recv.In) {
				bad = append(bad, "receive precedes send")
			}
			rc := recv.Args[0]
			if rc.Op != "make" || rc.Aux != "chan" || !rc.Args[0].IsConst("0") {
				bad = append(bad, "response channel is not a fresh unbuffered make(chan …) of this call: "+rc.K)
				return
			}
			mk, _ = rc.V.(*ssa.MakeChan)
			v := send.Args[1]
			if v.Op != "load" || v.Args[0].Op != "alloc" {
				bad = append(bad, "sent value is not the local request struct")
				return
			}
			got := s.MemKey("&" + v.Args[0].K + ".response")
			if got == nil || got.StripConv().K != rc.K {
				bad = append(bad, "the request's response field is not the channel the method receives on")
			}
			// request channel: the Store field named like the operation
			if !(send.Args[0].Op == "load" && send.Args[0].Args[0].Op == "fieldaddr" && send.Args[0].Args[0].Args[0].Op == "param") {
				bad = append(bad, "request is not sent on a channel field of the Store")
			}
		})
		if !er.Complete {
			bad = append(bad, "path limit")
		}
		if c.Check(len(bad) == 0, "C10.2", "client="+fnKey(fn), p.Pos(fn.Pos()), "fresh unbuffered response channel placed in the request; send then receive on it, nothing in between", strings.Join(uniqS(bad), "; ")) && mk != nil {
			rv[mk] = true
		}
	}
	if nClients < 9 {
		c.Undecided("C10.2", "clients", "-", fmt.Sprintf("VACUOUS: %d Store client methods, confirmed floor 9", nClients))
	}
	// dispatcher side
	d := dispatcherFn(p)
	if !need(c, "C10.2", d, "dispatcher goroutine") {
		return rv
	}
	perCase := map[string][]string{}
	cases := map[string]int{}
	er := dispatcherCases(d, func(dc dispCase) {
		cases[dc.ChanField]++
		s := dc.S
		var bad []string
		respKey := dc.Req.K + ".response"
		nsend := 0
		var sent *an.Term
		for _, e := range s.Events {
			if e.Kind == "send" {
				if e.Args[0].K == respKey {
					nsend++
					sent = e.Args[1]
				} else {
					bad = append(bad, "send on "+e.Args[0].K+" inside a dispatcher case")
				}
			}
		}
		respNil := false
		for _, a := range s.Atoms {
			if a.Op == "==" && a.A.K == respKey && a.B.IsConst("nil") {
				respNil = true
			}
		}
		isReq := strings.HasSuffix(dc.ChanField, "Chan")
		switch {
		case !isReq:
			if nsend != 0 {
				bad = append(bad, "non-request case sends a response")
			}
		case respNil:
			if nsend != 0 {
				bad = append(bad, "sends on a nil response channel")
			}
		case nsend != 1:
			bad = append(bad, fmt.Sprintf("%d responses on path %s (exactly one required)", nsend, s.BlockPath()))
		default:
			if cc, _ := sent.CallOf(); cc == nil || !strings.HasPrefix(cc.Aux, "(*"+mainPkg+".store).") {
				bad = append(bad, "response value is not the result of the store operation: "+sent.K)
			}
		}
		perCase[dc.ChanField] = append(perCase[dc.ChanField], bad...)
	})
	if !er.Complete {
		c.Undecided("C10.2", "dispatcher", p.Pos(d.Pos()), "path limit")
	}
	for _, k := range sortedKeys(cases) {
		c.Check(len(perCase[k]) == 0, "C10.2", "dispatcher-case="+k, p.Pos(d.Pos()), fmt.Sprintf("%d paths: each request answered exactly once on its own channel", cases[k]), strings.Join(uniqS(perCase[k]), "; "))
	}
	return rv
}

func c103(c *an.Ctx, p *an.Prog) {
	d := dispatcherFn(p)
	ns := p.Func("/cmd/whawty-auth", "NewStore")
	if !need(c, "C10.3", d, "dispatcher goroutine") || !need(c, "C10.3", ns, "main.NewStore") {
		return
	}
	rets := an.Targets(d, func(in ssa.Instruction) bool { _, ok := in.(*ssa.Return); return ok })
	c.Check(len(rets) == 0, "C10.3", fnKey(d)+"|no-exit", p.Pos(d.Pos()), "the dispatcher loop has no return", fmt.Sprintf("the dispatcher can return (%d return sites): all later requests would block forever", len(rets)))
	// started exactly once on success paths, never on failing ones
	var bad []string
	n := 0
	an.EnumPaths(ns, nil, nil, func(s *an.PathState) {
		k, _ := exitKind(s)
		ngo := 0
		for _, e := range s.Events {
			if e.Kind == "go" && e.Fn == d {
				ngo++
			}
		}
		n++
		if k == "error" && ngo != 0 {
			bad = append(bad, "dispatcher started on a failing path "+s.BlockPath())
		}
		if k != "error" && ngo != 1 {
			bad = append(bad, fmt.Sprintf("dispatcher started %d times on path %s (exit kind %s)", ngo, s.BlockPath(), k))
		}
	})
	c.Check(len(bad) == 0 && n > 0, "C10.3", fnKey(ns)+"|dispatcher-started-once", p.Pos(ns.Pos()), fmt.Sprintf("%d paths: exactly one `go dispatcher` on every non-failing path", n), strings.Join(uniqS(bad), "; "))
	// exhaustiveness: every chan field of `store` made in NewStore has a select case; GetInterface copies same-named fields
	made := map[string]bool{}
	for _, in := range an.DeepInstrs(ns) {
		{
			if st, ok := in.(*ssa.Store); ok {
				if fa, ok := st.Addr.(*ssa.FieldAddr); ok && isNamed(fa.X.Type(), mainPkg, "store") {
					if _, ok := st.Val.(*ssa.MakeChan); ok {
						made[fieldNameOf(fa)] = true
					}
				}
			}
		}
	}
	cased := map[string]bool{}
	for _, in := range an.DeepInstrs(d) {
		{
			if sel, ok := in.(*ssa.Select); ok {
				for _, st := range sel.States {
					if u, ok := st.Chan.(*ssa.UnOp); ok {
						if fa, ok := u.X.(*ssa.FieldAddr); ok {
							cased[fieldNameOf(fa)] = true
						}
					}
				}
			}
		}
	}
	var miss []string
	for f := range made {
		if !cased[f] {
			miss = append(miss, f)
		}
	}
	sort.Strings(miss)
	c.Check(len(miss) == 0 && len(made) >= 9, "C10.3", "dispatcher-cases-exhaustive", p.Pos(d.Pos()), fmt.Sprintf("all %d request channels made in NewStore have a select case", len(made)), "request channels without a dispatcher case: "+joinS(miss))
	if gi := p.Method("/cmd/whawty-auth", "store", "GetInterface"); need(c, "C10.3", gi, "main.(*store).GetInterface") {
		var bad []string
		n := 0
		for _, in := range an.DeepInstrs(gi) {
			{
				st, ok := in.(*ssa.Store)
				if !ok {
					continue
				}
				fa, ok := st.Addr.(*ssa.FieldAddr)
				if !ok || !isNamed(fa.X.Type(), mainPkg, "Store") {
					continue
				}
				n++
				v := st.Val
				if ct, ok := v.(*ssa.ChangeType); ok {
					v = ct.X
				}
				src := ""
				if u, ok := v.(*ssa.UnOp); ok {
					if sfa, ok := u.X.(*ssa.FieldAddr); ok && isNamed(sfa.X.Type(), mainPkg, "store") {
						src = fieldNameOf(sfa)
					}
				}
				if src != fieldNameOf(fa) {
					bad = append(bad, fmt.Sprintf("Store.%s is wired to store.%s", fieldNameOf(fa), src))
				}
				if !cased[src] {
					bad = append(bad, "exposed channel "+src+" has no dispatcher case")
				}
			}
		}
		c.Check(len(bad) == 0 && n >= 9, "C10.3", "interface-wiring", p.Pos(gi.Pos()), fmt.Sprintf("%d public channel fields wired to the same-named dispatcher channels", n), strings.Join(bad, "; "))
	}
}

// goroutineReach: the module functions root's goroutine can run — everything reachable without crossing `go`, not
// descending into library code, but through the compiler's wrappers of module methods (a bound method value such as
// h.runAllHooks handed over as a callback is called through its $bound wrapper, which is nobody's source).
func goroutineReach(p *an.Prog, root *ssa.Function) map[*ssa.Function]*callgraph.Edge {
	return p.Reach([]*ssa.Function{root}, an.ReachOpts{Stop: func(f *ssa.Function) bool {
		if p.InRepo(f) {
			return false
		}
		if f.Synthetic != "" && f.Syntax() == nil {
			pp := an.FnPkgPath(f)
			return !(pp == an.Module || strings.HasPrefix(pp, an.Module+"/"))
		}
		return true
	}})
}

// slowCalls lists calls reachable from root (without crossing go) that can wait on external things.
func slowCalls(p *an.Prog, root *ssa.Function) []string {
	reach := goroutineReach(p, root)
	var bad []string
	for f := range reach {
		if !p.InRepo(f) {
			continue
		}
		for _, in := range an.DeepInstrs(f) {
			{
				ci, ok := in.(ssa.CallInstruction)
				if !ok {
					continue
				}
				if _, isGo := in.(*ssa.Go); isGo {
					continue
				}
				n := an.CalleeName(ci)
				eff := an.ExtEffects[n]
				slow := eff == an.EffExecWait || n == "time.Sleep" || strings.HasPrefix(n, "(*net/http.Client).") || n == "net/http.Get" || n == "net/http.Post" || n == "net.Dial" || strings.HasPrefix(n, "(*sync.WaitGroup).Wait") || strings.HasPrefix(n, "(*sync.Mutex).Lock") || strings.HasPrefix(n, "(*sync.RWMutex).")
				if slow {
					bad = append(bad, fmt.Sprintf("%s in %s at %s (%s)", shortName(n), fnKey(f), p.InstrPos(in), an.Chain(reach, f)))
				}
			}
		}
	}
	sort.Strings(bad)
	return bad
}

func c104(c *an.Ctx, p *an.Prog) {
	d := dispatcherFn(p)
	if need(c, "C10.4", d, "dispatcher goroutine") {
		bad := slowCalls(p, d)
		c.Check(len(bad) == 0, "C10.4", "dispatcher|no-slow-call", p.Pos(d.Pos()), "no process wait, HTTP client call, dial, sleep or lock reachable from the dispatcher without crossing `go`", strings.Join(bad, "; "))
	}
	if hr := p.Method("/cmd/whawty-auth", "HooksCaller", "run"); need(c, "C10.4", hr, "main.(*HooksCaller).run") {
		bad := slowCalls(p, hr)
		// blocking channel operations in the hooks role: only the select of run itself
		reach := goroutineReach(p, hr)
		for _, o := range p.ChanOps() {
			if _, ok := reach[o.Fn]; !ok {
				continue
			}
			if o.Blocking && !o.InSelect {
				bad = append(bad, fmt.Sprintf("blocking %s in %s at %s", o.Kind, fnKey(o.Fn), p.InstrPos(o.In)))
			}
			if o.InSelect && o.Kind == "send" {
				bad = append(bad, "select-send in the hooks goroutine at "+p.InstrPos(o.In))
			}
		}
		// a blocking select is this goroutine's idle wait only if it is ready to take a notification there: one of its
		// cases receives from hooks.Notify (a select that waits for a hook process or its timer is a wait for the hook)
		{
			idle := map[ssa.Instruction]bool{}
			var sels []an.ChanOp
			for _, o := range p.ChanOps() {
				if _, ok := reach[o.Fn]; !ok || !o.InSelect || !o.Blocking {
					continue
				}
				sels = append(sels, o)
				if o.Kind == "recv" && strings.Contains(o.Desc, "HooksCaller.Notify") {
					idle[o.In] = true
				}
			}
			for _, o := range sels {
				if !idle[o.In] {
					bad = append(bad, fmt.Sprintf("blocking select in %s at %s that does not take notifications: the hooks goroutine waits for something else there", fnKey(o.Fn), p.InstrPos(o.In)))
				}
			}
		}
		c.Check(len(bad) == 0, "C10.4", "hooks|never-waits", p.Pos(hr.Pos()), "the hooks goroutine only waits in its own receive-select; hook processes are started, never waited for, on its path", strings.Join(uniqS(bad), "; "))
	}
	semaphoreReleased(c, p, "C10.4")
	if ru := p.Func("/cmd/whawty-auth", "remoteHTTPUpgrader"); need(c, "C10.4", ru, "main.remoteHTTPUpgrader") {
		bad := slowCalls(p, ru)
		// the upgrader's own goroutine: ru and everything it calls without crossing `go` (an acquire() method of a
		// semaphore type is part of it). The only place it may wait is the receive on its input queue.
		role := goroutineReach(p, ru)
		for _, o := range p.ChanOps() {
			if _, ok := role[o.Fn]; !ok || !p.InRepo(o.Fn) {
				continue
			}
			if o.Kind == "send" && o.Blocking {
				bad = append(bad, "blocking send in the upgrader loop at "+p.InstrPos(o.In)+" (rate limiting must not block the queue drain)")
			}
			if o.Kind == "recv" && o.Blocking {
				for _, m := range o.Sites {
					if _, own := role[m.Parent()]; own {
						bad = append(bad, "the upgrader waits on a channel of its own at "+p.InstrPos(o.In)+" (it must only ever wait for its input queue)")
					}
				}
			}
		}
		c.Check(len(bad) == 0, "C10.4", "remote-upgrader|drains-without-blocking", p.Pos(ru.Pos()), "semaphore taken only in a select with default; the HTTP call runs behind `go`", strings.Join(uniqS(bad), "; "))
	}
}

// onCycle: block b lies on a cycle of its function's control-flow graph.
func onCycle(b *ssa.BasicBlock) bool {
	seen := map[*ssa.BasicBlock]bool{}
	st := append([]*ssa.BasicBlock{}, b.Succs...)
	for len(st) > 0 {
		x := st[len(st)-1]
		st = st[:len(st)-1]
		if x == b {
			return true
		}
		if seen[x] {
			continue
		}
		seen[x] = true
		st = append(st, x.Succs...)
	}
	return false
}

// runsOnceIn: instruction `in` (in root or in a helper root calls) is executed at most once per activation of root:
// neither it nor any call on the chain from root down to it sits in a loop.
func runsOnceIn(p *an.Prog, root *ssa.Function, in ssa.Instruction, depth int) bool {
	if in.Block() == nil || onCycle(in.Block()) {
		return false
	}
	f := in.Parent()
	if f == root {
		return true
	}
	if depth > 4 {
		return false
	}
	n := p.CG.Nodes[f]
	if n == nil || len(n.In) == 0 {
		return false
	}
	for _, e := range n.In {
		if _, isCall := e.Site.(*ssa.Call); !isCall || !runsOnceIn(p, root, e.Site, depth+1) {
			return false
		}
	}
	return true
}

// selectChose: the index of the case the select event e took on path s (-1: the default branch; -2: unknown).
func selectChose(s *an.PathState, e an.Event) int {
	if e.Res == nil {
		return -2
	}
	ne := 0
	sel, _ := e.In.(*ssa.Select)
	for _, a := range s.Atoms {
		if a.B == nil || a.A.Op != "extract" || a.A.Aux != "0" || len(a.A.Args) == 0 || a.A.Args[0].K != e.Res.K {
			continue
		}
		if v, ok := a.B.ConstInt(); ok {
			switch a.Op {
			case "==":
				return int(v)
			case "!=":
				ne++
			}
		}
	}
	if sel != nil && !sel.Blocking && ne >= len(sel.States) {
		return -1
	}
	return -2
}

// semaphoreReleased: the remote upgrader limits the upgrades in flight with a counting semaphore. The semaphore is
// found by what it does, not by how it is spelled: a channel the upgrader's own goroutine creates and sends on
// (directly, in a select, or inside acquire/release methods of a channel type — helpers are interpreted inline and the
// channel points-to relates every operation to its creation site). Demanded: it is buffered and made once per upgrader;
// a job goroutine is started only after a slot was taken on that very path, and a slot that was taken is handed to a
// job; the job gives the slot back on every path to every exit — otherwise failures leak slots until every later
// upgrade is refused.
func semaphoreReleased(c *an.Ctx, p *an.Prog, rule string) {
	ru := p.Func("/cmd/whawty-auth", "remoteHTTPUpgrader")
	if ru == nil {
		return
	}
	ops := p.ChanOps()
	opsAt := map[ssa.Instruction][]an.ChanOp{}
	for _, o := range ops {
		opsAt[o.In] = append(opsAt[o.In], o)
	}
	role := goroutineReach(p, ru) // the upgrader's own goroutine
	inRole := func(f *ssa.Function) bool { _, ok := role[f]; return ok && p.InRepo(f) }
	cand := map[*ssa.MakeChan]bool{}
	for _, o := range ops {
		if o.Kind != "send" || !inRole(o.Fn) {
			continue
		}
		for _, m := range o.Sites {
			if inRole(m.Parent()) {
				cand[m] = true
			}
		}
	}
	var sem *ssa.MakeChan
	for m := range cand {
		if sem == nil || m.Pos() < sem.Pos() {
			sem = m
		}
	}
	if sem == nil {
		c.Undecided(rule, fnKey(ru)+"|semaphore", p.Pos(ru.Pos()), "UNRESOLVED: no counting semaphore (a channel made by the remote upgrader's goroutine on which that goroutine sends) found in the remote upgrader")
		return
	}
	if len(cand) > 1 {
		c.Undecided(rule, fnKey(ru)+"|semaphore", p.Pos(ru.Pos()), fmt.Sprintf("UNRESOLVED: the remote upgrader's goroutine sends on %d channels of its own; cannot tell which is the semaphore", len(cand)))
		return
	}
	isSem := func(in ssa.Instruction, state int) bool {
		os := opsAt[in]
		if state >= 0 {
			if state >= len(os) {
				return false
			}
			os = os[state : state+1]
		}
		for _, o := range os {
			for _, m := range o.Sites {
				if m == sem {
					return true
				}
			}
		}
		return false
	}
	{
		var bad []string
		if an.ChanCap(sem) == 0 {
			bad = append(bad, "the semaphore is unbuffered: a non-blocking acquire never succeeds, no upgrade is ever started")
		}
		if !runsOnceIn(p, ru, sem, 0) {
			bad = append(bad, "the semaphore is not made exactly once per upgrader (made in a loop, or in a helper called from one): it limits nothing")
		}
		c.Check(len(bad) == 0, rule, fnKey(ru)+"|semaphore-shape", p.InstrPos(sem), fmt.Sprintf("buffered channel (capacity %d) made once by the upgrader's goroutine", an.ChanCap(sem)), strings.Join(bad, "; "))
	}
	// ---- acquire before the job starts; an acquired slot is handed to a job ----
	{
		var bad []string
		nGo := 0
		visit := func(s *an.PathState) {
			held := false
			for _, e := range s.Events {
				switch e.Kind {
				case "send":
					if isSem(e.In, -1) {
						held = true
					}
				case "select":
					if k := selectChose(s, e); k >= 0 && isSem(e.In, k) {
						if sel, _ := e.In.(*ssa.Select); sel != nil && k < len(sel.States) && sel.States[k].Send != nil {
							held = true
						} else {
							held = false // a receive on the semaphore gives the slot back
						}
					} else if k == -2 && isSem(e.In, -1) {
						bad = append(bad, "cannot tell whether a slot was taken on path "+s.BlockPath())
					}
				case "recv":
					if isSem(e.In, -1) {
						held = false
					}
				case "go":
					nGo++
					if !held {
						bad = append(bad, fmt.Sprintf("%s is started without a rate-limit slot having been taken on that path (path %s [%s])", shortName(e.Callee), s.BlockPath(), s.FactsString()))
					}
					held = false // the job owns the slot now
				}
			}
			if held {
				bad = append(bad, fmt.Sprintf("a rate-limit slot is taken but neither handed to a job nor given back (path %s [%s]): after %d such rounds every later upgrade is refused", s.BlockPath(), s.FactsString(), an.ChanCap(sem)))
			}
		}
		for f := range role {
			if !inRole(f) || an.Inlinable(f) {
				continue // helpers are seen inside their callers
			}
			an.EnumPaths(f, nil, nil, visit)
			for _, h := range loopHeaders(f) {
				an.EnumPathsTo(f, h, nil, h, visit)
			}
		}
		c.Check(len(bad) == 0 && nGo > 0, rule, fnKey(ru)+"|slot-taken-before-job", p.Pos(ru.Pos()), "every job is started holding a slot taken on that path; no slot is taken without a job", strings.Join(uniqS(bad), "; "))
	}
	// ---- the job gives the slot back on every path ----
	// releases(f): every path of f to every exit receives from the semaphore (itself, in a helper or deferred function
	// interpreted inline, by calling a function that does, or by calling a parameter bound to such a function)
	memo := map[*ssa.Function]int{}
	var releases func(f *ssa.Function, relParams map[int]bool, depth int) []string
	releases = func(f *ssa.Function, relParams map[int]bool, depth int) []string {
		var bad []string
		nexit := 0
		er := an.EnumPaths(f, nil, nil, func(s *an.PathState) {
			nexit++
			released := false
			for _, e := range s.Events {
				switch {
				case e.Kind == "recv" && isSem(e.In, -1):
					released = true
				case e.Kind == "select":
					if k := selectChose(s, e); k >= 0 && isSem(e.In, k) {
						if sel, _ := e.In.(*ssa.Select); sel != nil && sel.States[k].Send == nil {
							released = true
						}
					}
				case e.Kind == "call" && e.Fn != nil && p.InRepo(e.Fn) && len(e.Fn.Blocks) > 0 && depth < 3:
					v, ok := memo[e.Fn]
					if !ok {
						memo[e.Fn] = 0
						if len(releases(e.Fn, nil, depth+1)) == 0 {
							memo[e.Fn] = 1
						}
						v = memo[e.Fn]
					}
					if v == 1 {
						released = true
					}
				case e.Kind == "call" && strings.HasPrefix(e.Callee, "dynamic p:"):
					for i, prm := range f.Params {
						if relParams[i] && e.Callee == "dynamic p:"+prm.Name() {
							released = true
						}
					}
				}
			}
			if !released {
				bad = append(bad, fmt.Sprintf("%s can finish without giving its rate-limit slot back (path %s [%s]): after %d such failures every later upgrade is refused", fnKey(f), s.BlockPath(), s.FactsString(), an.ChanCap(sem)))
			}
		})
		if !er.Complete || nexit == 0 {
			bad = append(bad, "cannot enumerate the paths of "+fnKey(f))
		}
		return bad
	}
	n := 0
	for _, gs := range p.GoSites() {
		if !inRole(gs.Parent) {
			continue
		}
		n++
		var bad []string
		for _, job := range gs.Callees {
			// parameters of the job that the go statement binds to a function which itself always releases
			relParams := map[int]bool{}
			if !gs.In.Common().IsInvoke() {
				for i, a := range gs.In.Common().Args {
					if mc, ok := a.(*ssa.MakeClosure); ok {
						if cf, _ := mc.Fn.(*ssa.Function); cf != nil && len(releases(cf, nil, 1)) == 0 {
							relParams[i] = true
						}
					}
				}
			}
			bad = append(bad, releases(job, relParams, 0)...)
		}
		c.Check(len(bad) == 0, rule, fnKey(ru)+"|slot-released-on-every-path", p.InstrPos(gs.In), "the upgrade job releases its semaphore slot on every exit (deferred)", strings.Join(uniqS(bad), "; "))
	}
	if n == 0 {
		c.Undecided(rule, fnKey(ru)+"|job", p.Pos(ru.Pos()), "UNRESOLVED: the remote upgrader starts no job goroutine")
	}
}
