package rules

import (
	"fmt"
	"os"
	"sort"
	"testing"

	"verif/checker/internal/an"
)

// TestListFns regenerates internal/an/pinned_funcs.txt (run by hand: WRITE_PINNED=1 go test -run TestListFns ./internal/rules).
func TestListFns(t *testing.T) {
	if os.Getenv("WRITE_PINNED") == "" {
		t.Skip()
	}
	p, err := an.Load(an.Config{Dir: "/repo"})
	if err != nil {
		t.Fatal(err)
	}
	var xs []string
	for _, f := range p.RepoFns {
		if f.Parent() == nil {
			xs = append(xs, f.String())
		}
	}
	sort.Strings(xs)
	out := ""
	for _, x := range xs {
		out += x + "\n"
	}
	if err := os.WriteFile("../an/pinned_funcs.txt", []byte(out), 0o644); err != nil {
		t.Fatal(err)
	}
	fmt.Println(len(xs), "functions")
}
