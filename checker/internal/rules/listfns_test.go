package rules

import (
	"fmt"
	"go/types"
	"strings"
	"os"
	"sort"
	"testing"

	"verif/checker/internal/an"
)

// TestListFns regenerates internal/an/pinned_funcs.txt (run by hand: WRITE_PINNED=1 go test -run TestListFns ./internal/rules).
func TestListFns(t *testing.T) {
	if os.Getenv("WRITE_PINNED") == "" {
		t.Skip()
	}
	p, err := an.Load(an.Config{Dir: "/repo"})
	if err != nil {
		t.Fatal(err)
	}
	var xs []string
	for _, f := range p.RepoFns {
		if f.Parent() == nil {
			xs = append(xs, f.String())
		}
	}
	sort.Strings(xs)
	out := ""
	for _, x := range xs {
		out += x + "\n"
	}
	if err := os.WriteFile("../an/pinned_funcs.txt", []byte(out), 0o644); err != nil {
		t.Fatal(err)
	}
	fmt.Println(len(xs), "functions")
	// struct types and their fields
	var ls []string
	for _, pk := range p.Pkgs {
		if !strings.HasPrefix(pk.PkgPath, an.Module) || pk.Types == nil {
			continue
		}
		sc := pk.Types.Scope()
		for _, name := range sc.Names() {
			tn, ok := sc.Lookup(name).(*types.TypeName)
			if !ok {
				continue
			}
			st, ok := tn.Type().Underlying().(*types.Struct)
			if !ok || st.NumFields() == 0 {
				continue
			}
			var fs []string
			for i := 0; i < st.NumFields(); i++ {
				fs = append(fs, st.Field(i).Name()+" "+types.TypeString(st.Field(i).Type(), func(q *types.Package) string { return q.Path() }))
			}
			ls = append(ls, pk.PkgPath+"."+name+": "+strings.Join(fs, "; "))
		}
	}
	sort.Strings(ls)
	if err := os.WriteFile("../an/pinned_fields.txt", []byte(strings.Join(ls, "\n")+"\n"), 0o644); err != nil {
		t.Fatal(err)
	}
	fmt.Println(len(ls), "struct types")
}
