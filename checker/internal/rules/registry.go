// Package rules holds the per-property rule sets.
package rules

import (
	"encoding/json"
	"fmt"
	"os"
	"path/filepath"
	"strings"

	"verif/checker/internal/an"
)

// PropRules is the rule set of one property.
type PropRules struct {
	ID      string
	Explain string
	Undec   []string // clauses not decided
	Trusted []string
	// Run evaluates the rules on one loaded configuration. thorough is true in the thorough tier.
	Run func(c *an.Ctx, p *an.Prog, thorough bool)
	// Floors are checked after the default configuration ran.
	Floors map[string]int
	// ExtraConfigs lists additional build configurations analysed in the thorough tier.
	NoExtraConfigs bool
}

// Overlay, when set, replaces files of /repo in memory (self-test mutants).
var Overlay map[string][]byte

// LoadMutant reads a mutant description {file, old, new[, count]} and returns the overlay.
func LoadMutant(repo, path string) (map[string][]byte, error) {
	b, err := os.ReadFile(path)
	if err != nil {
		return nil, err
	}
	var m struct {
		File, Old, New string
	}
	if err := json.Unmarshal(b, &m); err != nil {
		return nil, err
	}
	fp := filepath.Join(repo, m.File)
	src, err := os.ReadFile(fp)
	if err != nil {
		return nil, err
	}
	if n := strings.Count(string(src), m.Old); n != 1 {
		return nil, fmt.Errorf("anchor text occurs %d times in %s (need exactly 1)", n, m.File)
	}
	return map[string][]byte{fp: []byte(strings.Replace(string(src), m.Old, m.New, 1))}, nil
}

// Registry maps property ids to their rules.
var Registry = map[string]*PropRules{}

func register(r *PropRules) { Registry[r.ID] = r }

var commonTrusted = []string{
	"Go type checker, go/ssa lowering and the VTA/CHA call graphs of golang.org/x/tools v0.29.0",
	"semantics of the Go standard library, golang.org/x/crypto, the kernel and the file system",
	"arguments passed to stdlib decoders/encoders are written only during that call (not retained)",
	"fields read through non-local pointers are stable within one function activation except for stores in that function (cross-goroutine writers are excluded by the confinement rules of C11)",
	"no unsafe, cgo, linkname or reflect-based calls in module code (asserted on every run)",
}

// Run loads the configurations and evaluates r.
func Run(c *an.Ctx, r *PropRules, repo string) {
	c.Explain = r.Explain
	c.Undec = r.Undec
	c.Trusted = append(append([]string{}, commonTrusted...), r.Trusted...)
	cfgs := []an.Config{{Dir: repo, Overlay: Overlay}}
	if c.Tier == "thorough" && !r.NoExtraConfigs {
		cfgs = append(cfgs, an.Config{Dir: repo, Tags: []string{"dev"}}, an.Config{Dir: repo, Tags: []string{"gofuzz"}}, an.Config{Dir: repo, GOARCH: "386"})
	}
	for i, cfg := range cfgs {
		p, err := an.Load(cfg)
		if err != nil {
			c.Undecided("load", cfg.String(), "-", fmt.Sprintf("cannot load /repo (%s): %v", cfg, err))
			return
		}
		c.SetProg(p)
		assertNoEscapeHatches(c, p)
		r.Run(c, p, c.Tier == "thorough")
		if i == 0 {
			for rule, n := range r.Floors {
				c.Floor(rule, n)
			}
		}
	}
}
