package rules

import (
	"fmt"
	"sort"
	"strings"

	"golang.org/x/tools/go/ssa"

	"verif/checker/internal/an"
)

func init() {
	register(&PropRules{
		ID:      "C06",
		Explain: "Guard structure of the web API decided on every CFG path of every registered handler (handlers are discovered from the webHandler{…,H} literals): (C06.1) Store.Add/Remove/SetAdmin/List/ListFull are called only under sessions.Check(request.Session) status==200 ∧ isAdmin; (C06.2) Store.Update(T,·) only under status==200 ∧ (isAdmin ∨ session user == T) with Session≠\"\" ∧ OldPassword==\"\", or under Store.Authenticate(T, OldPassword) ok ∧ err==nil with Session==\"\" ∧ OldPassword≠\"\"; (C06.3) sessions.Generate(U,A) only under Store.Authenticate(U,·) ok ∧ err==nil with A the store-reported flag; (C06.4) every status-200 response is under the handler's gate and, for mutating handlers, under the store call's err==nil; list payloads come only from Store.List/ListFull; (C06.5) every request field handed to sessions.Check or the Store is known non-empty and is read from a request struct whose json Decode returned nil (a malformed body is refused, not processed with the fields decoded before the error); (C06.6) the Store mutators are called only from gated handlers and CLI actions, never from functions reachable from the SASL/LDAP/basic-auth/authenticate roots. (C06.7) on every path into cipher.AEAD.Open the nonce length equals NonceSize(); (C06.8) the session window rule of C07.4 (a token is accepted only with 0 <= age <= lifetime), evaluated on splitCheckToken or, when that function has been dissolved into inline helpers, on Check with the opened plaintext; (C06.9) the key rule of C07.1 (\"issued by this agent instance\", \"only in response to a successful password authentication\" need a key nobody else can know): on every path into aes.NewCipher the key operand is a fresh buffer of that call, completely filled by crypto/rand with the error checked — that very buffer, not a copy of it —, written by nothing else before the cipher has its copy and used for nothing else. (C06.10, rule instance shared with C04.1) \"current admin status\": the dispatcher's s.authenticate calls Dir.Authenticate on s.dir with the request's own credentials on every path and returns results 0..4 of that call — no admin flag remembered from an earlier request.",
		Undec:   []string{"sessions.Check itself (C07)", "JSON decoding ambiguities (duplicate keys, case-insensitive field match) inside encoding/json", "byte-for-byte equality of the store at run time (follows from 'no mutator call' + C15)", "closure under request sequences"},
		Run:     runC06,
		Floors:  map[string]int{"C06.1": 5, "C06.2": 1, "C06.3": 1, "C06.4": 8, "C06.5": 8, "C06.6": 5, "C06.9": 2, "C06.10": 2},
	})
}

const (
	sessCheck = "(*" + mainPkg + ".webSessionFactory).Check"
	sessGen   = "(*" + mainPkg + ".webSessionFactory).Generate"
	storeM    = "(*" + mainPkg + ".Store)."
)

var adminOps = map[string]bool{"Add": true, "Remove": true, "SetAdmin": true, "List": true, "ListFull": true}

// sessionGate: the path has a sessions.Check call with status==200; returns the call term.
func sessionGate(s *an.PathState) (sc *an.Term, statusOK bool) {
	for _, e := range s.Events {
		if e.Kind == "call" && e.Callee == sessCheck {
			sc = e.Res
		}
	}
	if sc == nil {
		return nil, false
	}
	for _, a := range s.Atoms {
		if a.Op == "==" && a.B.IsConst("200") {
			if cc, i := a.A.CallOf(); cc != nil && cc.K == sc.K && i == 0 {
				statusOK = true
			}
		}
	}
	return
}

func extractTrue(s *an.PathState, call *an.Term, idx int) bool {
	for _, a := range s.Atoms {
		if a.Op == "true" {
			if cc, i := a.A.CallOf(); cc != nil && cc.K == call.K && i == idx {
				return true
			}
		}
	}
	return false
}

func extractFalse(s *an.PathState, call *an.Term, idx int) bool {
	for _, a := range s.Atoms {
		if a.Op == "false" {
			if cc, i := a.A.CallOf(); cc != nil && cc.K == call.K && i == idx {
				return true
			}
		}
	}
	return false
}

func extractNil(s *an.PathState, call *an.Term, idx int) bool {
	for _, a := range s.Atoms {
		if a.Op == "==" && a.B.IsConst("nil") {
			if cc, i := a.A.CallOf(); cc != nil && cc.K == call.K && i == idx {
				return true
			}
		}
	}
	return false
}

func extractOf(call *an.Term, idx int) *an.Term {
	return &an.Term{K: fmt.Sprintf("%s#%d", call.K, idx), Op: "extract", Aux: fmt.Sprint(idx), Args: []*an.Term{call}}
}

// authGate: a Store.Authenticate(user, pw) call on the path with ok ∧ err==nil; returns it.
func authGate(s *an.PathState, user *an.Term) *an.Term {
	for _, e := range s.Events {
		if e.Kind == "call" && e.Callee == storeM+"Authenticate" && len(e.Args) == 3 {
			if user != nil && e.Args[1].K != user.K {
				continue
			}
			if extractTrue(s, e.Res, 0) && extractNil(s, e.Res, 3) {
				return e.Res
			}
		}
	}
	return nil
}

func nonEmpty(s *an.PathState, t *an.Term) bool { return nonEmptyKey(s, t.K) }

// nonEmptyWhere: like nonEmptyKey for the string term selected by pred.
func nonEmptyWhere(s *an.PathState, pred func(*an.Term) bool) bool {
	for _, a := range s.Atoms {
		if a.B == nil {
			continue
		}
		if a.Op == "!=" && a.B.IsConst(`""`) && pred(a.A.StripConv()) {
			return true
		}
		if a.A.IsCallTo("builtin len") && a.A.Op == "call" && pred(a.A.Args[0].StripConv()) {
			if (a.Op == "!=" && a.B.IsConst("0")) || (a.Op == ">" && a.B.IsConst("0")) || (a.Op == ">=" && a.B.IsConst("1")) {
				return true
			}
		}
	}
	return false
}

// nonEmptyKey: the path establishes x != "" (or len(x) != 0, len(x) > 0, len(x) >= 1) for the string with key k.
func nonEmptyKey(s *an.PathState, k string) bool {
	for _, a := range s.Atoms {
		if a.B == nil {
			continue
		}
		if a.Op == "!=" && a.A.K == k && a.B.IsConst(`""`) {
			return true
		}
		if a.A.IsCallTo("builtin len") && a.A.Op == "call" && a.A.Args[0].StripConv().K == k {
			if (a.Op == "!=" && a.B.IsConst("0")) || (a.Op == ">" && a.B.IsConst("0")) || (a.Op == ">=" && a.B.IsConst("1")) {
				return true
			}
		}
	}
	return false
}

func isEmpty(s *an.PathState, t *an.Term) bool {
	for _, a := range s.Atoms {
		if a.Op == "==" && a.A.K == t.K && a.B.IsConst(`""`) {
			return true
		}
	}
	return false
}

// isRequestField: t is a load of a field of the handler's decoded request struct.
func isRequestField(t *an.Term) (string, bool) {
	if t == nil || t.Op != "load" || t.Args[0].Op != "fieldaddr" {
		return "", false
	}
	base := t.Args[0].Args[0]
	if base.Op != "alloc" || !strings.Contains(base.Aux, "Request") {
		return "", false
	}
	return t.Args[0].Aux, true
}

func runC06(c *an.Ctx, p *an.Prog, thorough bool) {
	// every refused request gets a status: the one library call on the request path that panics on attacker-chosen
	// input (AEAD.Open with a nonce of the wrong length) is guarded
	aeadOpenPrecondition(c, p, "C06.7")
	// "a valid, unexpired session token": the window test of the session check (the rule instance of C07.4)
	sessionWindowRule(c, p, "C06.8")
	// "a session token issued by this agent instance", "issued only in response to a successful password authentication":
	// the sealing key is this instance's own CSPRNG output (the rule instance of C07.1)
	sessionKeyRule(c, p, "C06.9")
	authTurnRule(c, p, "C06.10")
	roots := frontendRoots(p)
	var handlers []Root
	for _, r := range roots {
		if r.Kind == "http" {
			handlers = append(handlers, r)
		}
	}
	if len(handlers) < 8 {
		c.Undecided("C06.0", "handlers", "-", fmt.Sprintf("UNRESOLVED: %d registered handlers discovered, confirmed floor 8", len(handlers)))
	}
	gated := map[*ssa.Function]bool{}
	for _, h := range handlers {
		fn := h.Fn
		// classify by the Store methods it calls
		var ops []string
		var sites []ssa.CallInstruction
		for _, in := range an.DeepInstrs(fn) {
			{
				if ci, ok := in.(ssa.CallInstruction); ok {
					n := an.CalleeName(ci)
					if strings.HasPrefix(n, storeM) {
						ops = append(ops, strings.TrimPrefix(n, storeM))
						sites = append(sites, ci)
					}
				}
			}
		}
		if len(ops) == 0 {
			c.Undecided("C06.0", "handler="+h.Name, p.Pos(fn.Pos()), "registered handler takes a Store but calls no Store method: no rule row applies")
			continue
		}
		ord := &ordinal{}
		for i, ci := range sites {
			op := ops[i]
			key := "handler=" + h.Name + "|" + ord.next("Store."+op)
			switch {
			case adminOps[op]:
				gated[fn] = true
				var bad []string
				n := 0
				er := an.EnumPaths(fn, nil, ci, func(s *an.PathState) {
					n++
					sc, ok := sessionGate(s)
					if sc == nil || !ok {
						bad = append(bad, "reached without sessions.Check(...) status==200 on path "+s.BlockPath())
						return
					}
					if !extractTrue(s, sc, 3) {
						bad = append(bad, "reached without isAdmin==true on path "+s.BlockPath()+" ["+s.FactsString()+"]")
					}
					if f, ok := isRequestField(sc.Args[1]); !ok || f != "Session" {
						bad = append(bad, "sessions.Check is not applied to the request's Session field: "+sc.Args[1].K)
					}
				})
				c.Stats["cfg_paths_enumerated"] += er.Paths
				if !er.Complete {
					bad = append(bad, "path limit")
				}
				c.Check(len(bad) == 0 && n > 0, "C06.1", key, p.InstrPos(ci), fmt.Sprintf("Store.%s only under valid session ∧ admin on all %d paths", op, n), strings.Join(uniqS(bad), "; "))
			case op == "Update":
				gated[fn] = true
				var bad []string
				alts := map[string]int{}
				er := an.EnumPaths(fn, nil, ci, func(s *an.PathState) {
					args := s.CallArgs(ci)
					T := args[1]
					if f, ok := isRequestField(T); !ok || f != "Username" {
						bad = append(bad, "updated user is not the request's Username field: "+T.K)
					}
					sc, ok := sessionGate(s)
					if sc != nil && ok {
						sess := sc.Args[1]
						self := s.Eq(extractOf(sc, 2), T)
						admin := extractTrue(s, sc, 3)
						if !(admin || self) {
							bad = append(bad, "session branch reached Update without isAdmin ∨ session-user==target on path "+s.BlockPath()+" ["+s.FactsString()+"]")
						}
						if f, ok := isRequestField(sess); !ok || f != "Session" || !nonEmpty(s, sess) {
							bad = append(bad, "session branch: Session field not known non-empty")
						}
						// old password must be empty in this branch
						okOld := false
						for _, a := range s.Atoms {
							if f, ok := isRequestField(a.A); ok && f == "OldPassword" && a.Op == "==" && a.B.IsConst(`""`) {
								okOld = true
							}
						}
						if !okOld {
							bad = append(bad, "session branch taken although OldPassword may be non-empty (ambiguous request must be refused)")
						}
						if admin {
							alts["session:admin"]++
						} else {
							alts["session:self"]++
						}
						return
					}
					ac := authGate(s, T)
					if ac != nil {
						old := ac.Args[2]
						if f, ok := isRequestField(old); !ok || f != "OldPassword" || !nonEmpty(s, old) {
							bad = append(bad, "password branch: authenticated password is not the non-empty OldPassword field")
						}
						okSess := false
						for _, a := range s.Atoms {
							if f, ok := isRequestField(a.A); ok && f == "Session" && a.Op == "==" && a.B.IsConst(`""`) {
								okSess = true
							}
						}
						if !okSess {
							bad = append(bad, "password branch taken although Session may be non-empty (ambiguous request must be refused)")
						}
						alts["old-password"]++
						return
					}
					bad = append(bad, "Store.Update reached with neither a valid session nor a successful authentication of the target on path "+s.BlockPath()+" ["+s.FactsString()+"]")
				})
				c.Stats["cfg_paths_enumerated"] += er.Paths
				if !er.Complete {
					bad = append(bad, "path limit")
				}
				c.Check(len(bad) == 0 && len(alts) >= 2, "C06.2", key, p.InstrPos(ci), fmt.Sprintf("Store.Update gate alternatives on the CFG: %v", alts), strings.Join(uniqS(bad), "; "))
			case op == "Authenticate":
				// gate of issuance / of the update's password branch: covered by C06.2 / C06.3
			default:
				c.Undecided("C06.0", key, p.InstrPos(ci), "Store."+op+" called from a web handler: no rule row")
			}
		}
		// C06.3 issuance
		for _, gi := range an.CallsTo(fn, sessGen) {
			var bad []string
			an.EnumPaths(fn, nil, gi, func(s *an.PathState) {
				args := s.CallArgs(gi)
				ac := authGate(s, args[1])
				if ac == nil {
					bad = append(bad, "token issued without Store.Authenticate(sameUser,·) ok ∧ err==nil on path "+s.BlockPath()+" ["+s.FactsString()+"]")
					return
				}
				if args[2].K != extractOf(ac, 1).K {
					bad = append(bad, "token admin flag is "+args[2].K+", not the flag the store reported")
				}
			})
			c.Check(len(bad) == 0, "C06.3", "handler="+h.Name+"|Generate", p.InstrPos(gi), "token issued only after successful authentication, for that user and the store-reported admin flag", strings.Join(uniqS(bad), "; "))
		}
		c064(c, p, h, fn)
		c065(c, p, h, fn)
	}
	c066(c, p, roots, gated)
}

func uniqS(xs []string) []string {
	m := map[string]bool{}
	var o []string
	for _, x := range xs {
		if !m[x] {
			m[x] = true
			o = append(o, x)
		}
	}
	sort.Strings(o)
	return o
}

// c064: success responses only under the gate.
func c064(c *an.Ctx, p *an.Prog, h Root, fn *ssa.Function) {
	n200 := 0
	var bad []string
	for _, ci := range an.CallsTo(fn, mainPkg+".sendWebResponse") {
		an.EnumPaths(fn, nil, ci, func(s *an.PathState) {
			args := s.CallArgs(ci)
			st := args[1]
			if v, ok := st.ConstInt(); ok && v != 200 {
				return
			}
			if !st.IsConst("200") {
				// status forwarded from a callee: must be sessions.Check (≠200 by the branch) or Generate
				if cc, i := st.CallOf(); cc != nil && i == 0 && cc.Aux == sessCheck {
					if !s.Ne(st, &an.Term{K: "c:200", Op: "const", Aux: "200"}) {
						bad = append(bad, "forwards the session status without having excluded 200")
					}
					return
				}
				if cc, i := st.CallOf(); cc != nil && i == 0 && cc.Aux == sessGen {
					n200++
					return // gate of Generate is C06.3
				}
				bad = append(bad, "response status is neither a constant nor a session status: "+st.K)
				return
			}
			n200++
			// which gate applies?
			var storeCall *an.Term
			var op string
			for _, e := range s.Events {
				if e.Kind == "call" && strings.HasPrefix(e.Callee, storeM) {
					o := strings.TrimPrefix(e.Callee, storeM)
					if o != "Authenticate" {
						storeCall, op = e.Res, o
					}
				}
			}
			sc, ok := sessionGate(s)
			if storeCall != nil {
				// mutating / listing handlers: success only after the store call returned err == nil
				last := storeCall.V.(*ssa.Call).Call.Signature().Results().Len() - 1
				okErr := false
				if last == 0 {
					for _, a := range s.Atoms {
						if a.Op == "==" && a.B.IsConst("nil") && a.A.K == storeCall.K {
							okErr = true
						}
					}
				} else {
					okErr = extractNil(s, storeCall, last)
				}
				if !okErr {
					bad = append(bad, "200 after Store."+op+" without err==nil on path "+s.BlockPath())
				}
				return // the gate of the store call itself is C06.1/C06.2
			}
			// 200 without a store operation: only the update handler's 'password verified, nothing to change' reply
			if ac := authGate(s, nil); ac != nil {
				return
			}
			if sc != nil && ok && extractTrue(s, sc, 3) {
				return
			}
			bad = append(bad, "200 response without any gate on path "+s.BlockPath()+" ["+s.FactsString()+"]")
		})
	}
	// raw WriteHeader(200) (basic-auth)
	for _, in := range an.DeepInstrs(fn) {
		{
			ci, ok := in.(ssa.CallInstruction)
			if !ok || !ci.Common().IsInvoke() || ci.Common().Method.Name() != "WriteHeader" {
				continue
			}
			an.EnumPaths(fn, nil, in, func(s *an.PathState) {
				args := s.CallArgs(ci)
				if v, ok := args[1].ConstInt(); ok && v >= 300 {
					return
				}
				n200++
				if authGate(s, nil) == nil {
					bad = append(bad, "WriteHeader("+args[1].K+") without Store.Authenticate ok ∧ err==nil on path "+s.BlockPath())
				}
			})
		}
	}
	// list payload provenance
	for _, in := range an.DeepInstrs(fn) {
		{
			st, ok := in.(*ssa.Store)
			if !ok {
				continue
			}
			fa, ok := st.Addr.(*ssa.FieldAddr)
			if !ok {
				continue
			}
			fv := an.FieldVar(fa.X.Type(), fa.Field)
			if fv == nil || an.CanonField(fa.X.Type(), fa.Field) != "List" {
				continue
			}
			okSrc := false
			if ex, ok := st.Val.(*ssa.Extract); ok {
				if call, ok := ex.Tuple.(*ssa.Call); ok {
					n := an.CalleeName(call)
					okSrc = n == storeM+"List" || n == storeM+"ListFull"
				}
			}
			if !okSrc {
				bad = append(bad, "list payload assigned from something other than Store.List/ListFull at "+p.InstrPos(in))
			}
		}
	}
	if n200 == 0 {
		c.Undecided("C06.4", "handler="+h.Name+"|success", p.Pos(fn.Pos()), "UNRESOLVED: handler has no success response")
		return
	}
	c.Check(len(bad) == 0, "C06.4", "handler="+h.Name+"|success-under-gate", p.Pos(fn.Pos()), fmt.Sprintf("%d success-response paths, all under the handler's gate", n200), strings.Join(uniqS(bad), "; "))
}

// c065: request fields handed to sessions.Check / Store.* are known non-empty.
func c065(c *an.Ctx, p *an.Prog, h Root, fn *ssa.Function) {
	var bad []string
	n := 0
	for _, in := range an.DeepInstrs(fn) {
		{
			ci, ok := in.(ssa.CallInstruction)
			if !ok {
				continue
			}
			name := an.CalleeName(ci)
			if !(name == sessCheck || strings.HasPrefix(name, storeM)) {
				continue
			}
			an.EnumPaths(fn, nil, in, func(s *an.PathState) {
				if assumesEmptyComposed(s) {
					return // no execution takes this path (an error message built around a literal is never "")
				}
				for _, a := range s.CallArgs(ci)[1:] {
					f, ok := isRequestField(a)
					if !ok {
						continue
					}
					// a malformed request is refused, not processed with whatever was decoded before the error: the
					// struct the field is read from was filled by a json Decode whose error is known to be nil
					if !decodedOK(s, a.Args[0].Args[0]) {
						bad = append(bad, fmt.Sprintf("%s receives request field %s although decoding the request body may have failed (path %s)", shortName(name), f, s.BlockPath()))
					}
					if !strings.Contains(a.V.Type().String(), "string") {
						continue
					}
					n++
					if !nonEmpty(s, a) {
						bad = append(bad, fmt.Sprintf("%s receives request field %s that may be empty (path %s)", shortName(name), f, s.BlockPath()))
					}
				}
			})
		}
	}
	if h.Name == "main.handleWebBasicAuth" {
		c.OK("C06.5", "handler="+h.Name+"|fields", p.Pos(fn.Pos()), "basic-auth takes credentials from the Authorization header (no JSON fields)")
		return
	}
	c.Check(len(bad) == 0 && n > 0, "C06.5", "handler="+h.Name+"|non-empty-fields", p.Pos(fn.Pos()), fmt.Sprintf("%d field uses, all under field != \"\" and behind a successful decode of the request body", n), strings.Join(uniqS(bad), "; "))
}

// decodedOK: the request struct req was filled by (*json.Decoder).Decode (or json.Unmarshal) on this path and that call
// returned nil.
func decodedOK(s *an.PathState, req *an.Term) bool {
	for _, e := range s.Events {
		if e.Kind != "call" || (e.Callee != "(*encoding/json.Decoder).Decode" && e.Callee != "encoding/json.Unmarshal") || len(e.Args) != 2 || e.Res == nil || e.Args[1] == nil {
			continue
		}
		if e.Args[1].StripConv().K != req.K {
			continue
		}
		for _, a := range s.Atoms {
			if a.Op == "==" && a.B != nil && a.B.IsConst("nil") && a.A.K == e.Res.K {
				return true
			}
		}
	}
	return false
}

// c066: who may call the Store mutators.
func c066(c *an.Ctx, p *an.Prog, roots []Root, gated map[*ssa.Function]bool) {
	// functions reachable from authentication-only roots
	var authRoots []*ssa.Function
	for _, r := range roots {
		if r.Kind != "http" || r.Name == "main.handleWebBasicAuth" || r.Name == "main.handleWebAuthenticate" {
			authRoots = append(authRoots, r.Fn)
		}
	}
	fromAuth := p.Reach(authRoots, an.ReachOpts{OnlyRepo: true, CrossGo: true})
	for _, m := range []string{"Add", "Remove", "Update", "SetAdmin", "Init"} {
		fn := p.Method("/cmd/whawty-auth", "Store", m)
		if !need(c, "C06.6", fn, "main.(*Store)."+m) {
			continue
		}
		var bad, okc []string
		for _, g := range []bool{false, true} {
			for _, e := range p.Callers(fn, g) {
				caller := e.Caller.Func
				if !p.InRepo(caller) {
					continue
				}
				if _, ok := fromAuth[caller]; ok {
					bad = append(bad, "called from "+fnKey(caller)+", which is reachable from an authentication-only frontend ("+an.Chain(fromAuth, caller)+")")
					continue
				}
				if gated[caller] {
					okc = append(okc, fnKey(caller)+" (gated handler)")
					continue
				}
				if strings.HasPrefix(caller.Name(), "cmd") && caller.Parent() == nil {
					okc = append(okc, fnKey(caller)+" (CLI action)")
					continue
				}
				bad = append(bad, "called from "+fnKey(caller)+" at "+p.InstrPos(e.Site)+", which is neither a gated handler nor a CLI action")
			}
		}
		c.Check(len(bad) == 0 && len(okc) > 0, "C06.6", "mutator=Store."+m, p.Pos(fn.Pos()), "callers: "+strings.Join(uniqS(okc), ", "), strings.Join(uniqS(bad), "; "))
	}
}
