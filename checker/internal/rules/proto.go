package rules

import (
	"fmt"
	"go/token"
	"strings"

	"golang.org/x/tools/go/ssa"

	"verif/checker/internal/an"
)

// ---- helpers over the events of one path ----

// lastReturn returns the return event that ends the path (nil for panics).
func lastReturn(s *an.PathState) *an.Event {
	if len(s.Events) == 0 {
		return nil
	}
	ev := &s.Events[len(s.Events)-1]
	if ev.Kind != "return" {
		return nil
	}
	return ev
}

// errResultIndex returns the index of the last result if it is of type error, else -1.
func errResultIndex(fn *ssa.Function) int {
	rs := fn.Signature.Results()
	if rs.Len() == 0 {
		return -1
	}
	if rs.At(rs.Len()-1).Type().String() == "error" {
		return rs.Len() - 1
	}
	return -1
}

// exitKind classifies the exit of a path: "error" (error result provably non-nil), "success" (nil constant or
// no error result) or "maybe" (an error value not known to be nil or non-nil, e.g. `return f()`).
func exitKind(s *an.PathState) (kind string, r *an.Term) {
	ret := lastReturn(s)
	if ret == nil {
		return "panic", nil
	}
	i := errResultIndex(s.Fn)
	if i < 0 {
		return "success", nil
	}
	r = ret.Args[i]
	switch {
	case r.IsConst("nil") || s.IsNil(r):
		return "success", r
	case s.NonNil(r):
		return "error", r
	case r.Op == "call" && (r.Aux == "fmt.Errorf" || r.Aux == "errors.New"):
		return "error", r
	}
	return "maybe", r
}

// evalAtom evaluates a (translated) atom under the facts of s.
func evalAtom(s *an.PathState, a an.Atom) (known, val bool) {
	switch a.Op {
	case "true", "false":
		want := a.Op == "true"
		if a.A.IsConst("true") {
			return true, want
		}
		if a.A.IsConst("false") {
			return true, !want
		}
		if s.IsTrue(a.A) {
			return true, want
		}
		if s.IsFalse(a.A) {
			return true, !want
		}
	case "==", "!=":
		want := a.Op == "=="
		if a.A.Op == "const" && a.B.Op == "const" {
			return true, (a.A.K == a.B.K) == want
		}
		if a.B.IsConst("nil") {
			if s.IsNil(a.A) {
				return true, want
			}
			if s.NonNil(a.A) || a.A.Op == "alloc" || a.A.Op == "make" {
				return true, !want
			}
		}
		if s.Eq(a.A, a.B) {
			return true, want
		}
		if s.Ne(a.A, a.B) {
			return true, !want
		}
	}
	return false, false
}

// deferredClosureCalls returns the calls a deferred closure certainly performs when it runs at this exit:
// the calls common to all closure paths that are not refuted by the creator's facts.
// deferredBody: the function a deferred call runs and what its free variables / parameters stand for: a closure
// (captured variables bound where it was created) or a module function called with arguments evaluated at the defer.
//
// The third result is the memory the body's loads are resolved in: the creator's memory when the deferred calls run
// (ev.AtExit), extended — for a closure handed out by a module function, see returnedClosure — by the cells of that
// function's frame the closure captured.
func deferredBody(s *an.PathState, ev an.Event) (*ssa.Function, map[string]*an.Term, map[string]*an.Term, bool) {
	ci, ok := ev.In.(ssa.CallInstruction)
	if !ok {
		return nil, nil, nil, false
	}
	fv := map[string]*an.Term{}
	if mc, ok := ci.Common().Value.(*ssa.MakeClosure); ok {
		cf := mc.Fn.(*ssa.Function)
		for i, b := range mc.Bindings {
			fv[cf.FreeVars[i].Name()] = s.T(b)
		}
		return cf, fv, ev.AtExit, true
	}
	if g := ci.Common().StaticCallee(); g != nil && an.CurProg() != nil && an.CurProg().InRepo(g) && len(g.Blocks) > 0 && g.Signature.Recv() == nil {
		for i, prm := range g.Params {
			if i < len(ev.Args) {
				fv["p:"+prm.Name()] = ev.Args[i]
			}
		}
		return g, fv, ev.AtExit, true
	}
	if cf, fv, cells, ok := returnedClosure(s, ci); ok {
		snap := make(map[string]*an.Term, len(ev.AtExit)+len(cells))
		for k, v := range ev.AtExit {
			snap[k] = v
		}
		for k, v := range cells {
			snap[k] = v
		}
		return cf, fv, snap, true
	}
	return nil, nil, nil, false
}

// retClosure is what a module function hands out at one function-typed result position (see returnedClosure).
type retClosure struct {
	fn    *ssa.Function
	cells []retCell
}

// retCell: the value a captured cell of the callee's frame holds when the callee returns: the callee's own result
// number res (>= 0), or the callee's term val.
type retCell struct {
	res int
	val *an.Term
}

type retClosureKey struct {
	g   *ssa.Function
	idx int
}

var retClosureMemo = map[retClosureKey]*retClosure{}

// returnedClosure resolves the function value called at ci when it is a result of a static call to a module function
// g ("tmp, discard, err := getTempFile(); defer discard()"): every return of g hands out, at that position, nil or the
// closure made at ONE MakeClosure site of g. Each captured variable must be a cell of g's own frame that g only stores
// to and loads from and that the closure only loads — then nobody can change it after g has returned, and the closure
// sees the value the cell held at g's return: one of g's other results (the caller's own term for that result), or
// g's term with g's parameters bound to the call's arguments. All returns must agree. Anything else: not resolved
// (the call stays an opaque dynamic call, which no rule accepts as a cleanup).
func returnedClosure(s *an.PathState, ci ssa.CallInstruction) (*ssa.Function, map[string]*an.Term, map[string]*an.Term, bool) {
	v := ci.Common().Value
	idx := 0
	if ex, isEx := v.(*ssa.Extract); isEx {
		idx, v = ex.Index, ex.Tuple
	}
	call, isCall := v.(*ssa.Call)
	if !isCall || call.Common().IsInvoke() {
		return nil, nil, nil, false
	}
	g := call.Common().StaticCallee()
	if g == nil || an.CurProg() == nil || !an.CurProg().InRepo(g) || len(g.Blocks) == 0 {
		return nil, nil, nil, false
	}
	ct := s.T(call)
	if ct == nil || ct.Op != "call" {
		return nil, nil, nil, false
	}
	key := retClosureKey{g, idx}
	rc, done := retClosureMemo[key]
	if !done {
		rc = summariseReturnedClosure(g, idx)
		retClosureMemo[key] = rc
	}
	if rc == nil {
		return nil, nil, nil, false
	}
	pm := an.ParamMap(g, ct.Args)
	fv := map[string]*an.Term{}
	cells := map[string]*an.Term{}
	for i, cell := range rc.cells {
		name := rc.fn.FreeVars[i].Name()
		addr := &an.Term{K: "&cell⟦" + ct.K + "⟧." + name, Op: "foreign", Aux: name}
		var val *an.Term
		if cell.res >= 0 {
			if refs := call.Referrers(); refs != nil {
				for _, r := range *refs {
					if ex, ok := r.(*ssa.Extract); ok && ex.Index == cell.res {
						val = s.T(ex)
					}
				}
			}
			if val == nil {
				val = &an.Term{K: fmt.Sprintf("%s#%d", ct.K, cell.res), Op: "extract", Aux: fmt.Sprint(cell.res), Args: []*an.Term{ct}}
			}
		} else {
			val = an.Subst(cell.val, pm, an.FnName(g))
		}
		fv[name] = addr
		cells[addr.K] = val
	}
	return rc.fn, fv, cells, true
}

func summariseReturnedClosure(g *ssa.Function, idx int) *retClosure {
	var mc *ssa.MakeClosure
	var cells []retCell
	bad := false
	res := an.EnumPaths(g, nil, nil, func(cs *an.PathState) {
		if bad || len(cs.Events) == 0 {
			return
		}
		ev := cs.Events[len(cs.Events)-1]
		if ev.Kind != "return" {
			return
		}
		if idx >= len(ev.Args) || ev.Args[idx] == nil {
			bad = true
			return
		}
		r := ev.Args[idx]
		if r.IsConst("nil") {
			return
		}
		m, isMC := r.V.(*ssa.MakeClosure)
		if r.Op != "closure" || !isMC || m.Parent() != g || (mc != nil && mc != m) {
			bad = true
			return
		}
		f, _ := m.Fn.(*ssa.Function)
		if f == nil || len(f.Blocks) == 0 || len(r.Args) != len(f.FreeVars) || len(m.Bindings) != len(f.FreeVars) {
			bad = true
			return
		}
		var here []retCell
		for i := range f.FreeVars {
			if !privateCell(m.Bindings[i], m) || !an.ClosureOnlyLoads(f, i) {
				bad = true
				return
			}
			val := cs.Mem(r.Args[i])
			if val == nil {
				bad = true
				return
			}
			c := retCell{res: -1, val: val}
			if val.Op != "const" {
				for j, ra := range ev.Args {
					if j != idx && ra != nil && ra.K == val.K {
						c.res = j
						break
					}
				}
			}
			here = append(here, c)
		}
		if mc != nil {
			for i := range here {
				if here[i].res != cells[i].res || (here[i].res < 0 && here[i].val.K != cells[i].val.K) {
					bad = true
					return
				}
			}
		}
		mc, cells = m, here
	})
	if bad || !res.Complete || mc == nil {
		return nil
	}
	return &retClosure{fn: mc.Fn.(*ssa.Function), cells: cells}
}

// privateCell: v is a local variable cell of the function that makes closure mc, and that function does nothing with
// its address but store to it, load from it and capture it in mc.
func privateCell(v ssa.Value, mc *ssa.MakeClosure) bool {
	al, ok := v.(*ssa.Alloc)
	if !ok || al.Parent() != mc.Parent() {
		return false
	}
	refs := al.Referrers()
	if refs == nil {
		return false
	}
	for _, r := range *refs {
		switch x := r.(type) {
		case *ssa.DebugRef:
		case *ssa.Store:
			if x.Addr != ssa.Value(al) || x.Val == ssa.Value(al) {
				return false
			}
		case *ssa.UnOp:
			if x.Op != token.MUL {
				return false
			}
		case *ssa.MakeClosure:
			if x != mc {
				return false
			}
		default:
			return false
		}
	}
	return true
}

func deferredClosureCalls(s *an.PathState, ev an.Event) (must []an.Event, decided bool) {
	cf, fv, snap, ok := deferredBody(s, ev)
	if !ok {
		return nil, false
	}
	if snap == nil {
		snap = map[string]*an.Term{}
	}
	type pcalls []an.Event
	var feas []pcalls
	res := an.EnumPaths(cf, nil, nil, func(cs *an.PathState) {
		for _, a := range cs.Atoms {
			ta := an.Atom{Op: a.Op, A: an.SubstFree(a.A, fv, snap, an.FnName(cf))}
			if a.B != nil {
				ta.B = an.SubstFree(a.B, fv, snap, an.FnName(cf))
			}
			if k, v := evalAtom(s, ta); k && !v {
				return // refuted
			}
		}
		var calls pcalls
		for _, e := range cs.Events {
			if e.Kind != "call" {
				continue
			}
			ne := e
			ne.Args = nil
			for _, a := range e.Args {
				ne.Args = append(ne.Args, an.SubstFree(a, fv, snap, an.FnName(cf)))
			}
			ne.Deferred = true
			calls = append(calls, ne)
		}
		feas = append(feas, calls)
	})
	if !res.Complete || len(feas) == 0 {
		return nil, false
	}
	for _, e := range feas[0] {
		inAll := true
		for _, other := range feas[1:] {
			f := false
			for _, o := range other {
				if o.Callee == e.Callee && argsKey(o.Args) == argsKey(e.Args) {
					f = true
				}
			}
			if !f {
				inAll = false
			}
		}
		if inAll {
			must = append(must, e)
		}
	}
	return must, true
}

func argsKey(as []*an.Term) string {
	var ks []string
	for _, a := range as {
		ks = append(ks, a.String())
	}
	return strings.Join(ks, ",")
}

// expandedEvents returns the events of the path with deferred closures replaced by the calls they must perform.
func expandedEvents(s *an.PathState) []an.Event {
	var out []an.Event
	for _, e := range s.Events {
		if e.Kind == "call" && e.Deferred {
			if _, _, _, isBody := deferredBody(s, e); isBody {
				if must, ok := deferredClosureCalls(s, e); ok {
					out = append(out, must...)
					continue
				}
			}
		}
		out = append(out, e)
	}
	return out
}

// indexOfInstr returns the position of the event produced by instruction in (not deferred), or -1.
func indexOfInstr(evs []an.Event, in ssa.Instruction) int {
	for i, e := range evs {
		if e.In == in && !e.Deferred && e.Kind != "defer" {
			return i
		}
	}
	return -1
}

func pathDesc(s *an.PathState) string {
	return fmt.Sprintf("%s: blocks %s [%s]", fnKey(s.Fn), s.BlockPath(), s.FactsString())
}

// callErrNil: the facts say that the error result of call term c is nil.
func callErrNil(s *an.PathState, c *an.Term) bool {
	ei := errIndexOf(c)
	for _, a := range s.Atoms {
		if a.Op != "==" || !a.B.IsConst("nil") {
			continue
		}
		cc, i := a.A.CallOf()
		if cc != nil && cc.K == c.K && (ei < 0 || i == ei || i == -1) {
			return true
		}
	}
	return false
}

// errIndexOf: the position of the error among the results of the call the term stands for (-1: unknown or none).
func errIndexOf(c *an.Term) int {
	if c == nil {
		return -1
	}
	ci, ok := c.V.(ssa.CallInstruction)
	if !ok {
		if v, isV := c.V.(*ssa.Call); isV {
			ci = v
		} else {
			return -1
		}
	}
	res := ci.Common().Signature().Results()
	for i := res.Len() - 1; i >= 0; i-- {
		if res.At(i).Type().String() == "error" {
			if res.Len() == 1 {
				return -1
			}
			return i
		}
	}
	return -1
}

// callErrNonNil: the facts say the error result of call c is non-nil.
func callErrNonNil(s *an.PathState, c *an.Term) bool {
	ei := errIndexOf(c)
	for _, a := range s.Atoms {
		if a.Op != "!=" || !a.B.IsConst("nil") {
			continue
		}
		cc, i := a.A.CallOf()
		if cc != nil && cc.K == c.K && (ei < 0 || i == ei || i == -1) {
			return true
		}
	}
	return false
}
