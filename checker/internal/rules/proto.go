package rules

import (
	"fmt"
	"strings"

	"golang.org/x/tools/go/ssa"

	"verif/checker/internal/an"
)

// ---- helpers over the events of one path ----

// lastReturn returns the return event that ends the path (nil for panics).
func lastReturn(s *an.PathState) *an.Event {
	if len(s.Events) == 0 {
		return nil
	}
	ev := &s.Events[len(s.Events)-1]
	if ev.Kind != "return" {
		return nil
	}
	return ev
}

// errResultIndex returns the index of the last result if it is of type error, else -1.
func errResultIndex(fn *ssa.Function) int {
	rs := fn.Signature.Results()
	if rs.Len() == 0 {
		return -1
	}
	if rs.At(rs.Len()-1).Type().String() == "error" {
		return rs.Len() - 1
	}
	return -1
}

// exitKind classifies the exit of a path: "error" (error result provably non-nil), "success" (nil constant or
// no error result) or "maybe" (an error value not known to be nil or non-nil, e.g. `return f()`).
func exitKind(s *an.PathState) (kind string, r *an.Term) {
	ret := lastReturn(s)
	if ret == nil {
		return "panic", nil
	}
	i := errResultIndex(s.Fn)
	if i < 0 {
		return "success", nil
	}
	r = ret.Args[i]
	switch {
	case r.IsConst("nil") || s.IsNil(r):
		return "success", r
	case s.NonNil(r):
		return "error", r
	case r.Op == "call" && (r.Aux == "fmt.Errorf" || r.Aux == "errors.New"):
		return "error", r
	}
	return "maybe", r
}

// evalAtom evaluates a (translated) atom under the facts of s.
func evalAtom(s *an.PathState, a an.Atom) (known, val bool) {
	switch a.Op {
	case "true", "false":
		want := a.Op == "true"
		if a.A.IsConst("true") {
			return true, want
		}
		if a.A.IsConst("false") {
			return true, !want
		}
		if s.IsTrue(a.A) {
			return true, want
		}
		if s.IsFalse(a.A) {
			return true, !want
		}
	case "==", "!=":
		want := a.Op == "=="
		if a.A.Op == "const" && a.B.Op == "const" {
			return true, (a.A.K == a.B.K) == want
		}
		if a.B.IsConst("nil") {
			if s.IsNil(a.A) {
				return true, want
			}
			if s.NonNil(a.A) || a.A.Op == "alloc" || a.A.Op == "make" {
				return true, !want
			}
		}
		if s.Eq(a.A, a.B) {
			return true, want
		}
		if s.Ne(a.A, a.B) {
			return true, !want
		}
	}
	return false, false
}

// deferredClosureCalls returns the calls a deferred closure certainly performs when it runs at this exit:
// the calls common to all closure paths that are not refuted by the creator's facts.
// deferredBody: the function a deferred call runs and what its free variables / parameters stand for: a closure
// (captured variables bound where it was created) or a module function called with arguments evaluated at the defer.
func deferredBody(s *an.PathState, ev an.Event) (*ssa.Function, map[string]*an.Term, bool) {
	ci, ok := ev.In.(ssa.CallInstruction)
	if !ok {
		return nil, nil, false
	}
	fv := map[string]*an.Term{}
	if mc, ok := ci.Common().Value.(*ssa.MakeClosure); ok {
		cf := mc.Fn.(*ssa.Function)
		for i, b := range mc.Bindings {
			fv[cf.FreeVars[i].Name()] = s.T(b)
		}
		return cf, fv, true
	}
	if g := ci.Common().StaticCallee(); g != nil && an.CurProg() != nil && an.CurProg().InRepo(g) && len(g.Blocks) > 0 && g.Signature.Recv() == nil {
		for i, prm := range g.Params {
			if i < len(ev.Args) {
				fv["p:"+prm.Name()] = ev.Args[i]
			}
		}
		return g, fv, true
	}
	return nil, nil, false
}

func deferredClosureCalls(s *an.PathState, ev an.Event) (must []an.Event, decided bool) {
	cf, fv, ok := deferredBody(s, ev)
	if !ok {
		return nil, false
	}
	snap := ev.AtExit
	if snap == nil {
		snap = map[string]*an.Term{}
	}
	type pcalls []an.Event
	var feas []pcalls
	res := an.EnumPaths(cf, nil, nil, func(cs *an.PathState) {
		for _, a := range cs.Atoms {
			ta := an.Atom{Op: a.Op, A: an.SubstFree(a.A, fv, snap, an.FnName(cf))}
			if a.B != nil {
				ta.B = an.SubstFree(a.B, fv, snap, an.FnName(cf))
			}
			if k, v := evalAtom(s, ta); k && !v {
				return // refuted
			}
		}
		var calls pcalls
		for _, e := range cs.Events {
			if e.Kind != "call" {
				continue
			}
			ne := e
			ne.Args = nil
			for _, a := range e.Args {
				ne.Args = append(ne.Args, an.SubstFree(a, fv, snap, an.FnName(cf)))
			}
			ne.Deferred = true
			calls = append(calls, ne)
		}
		feas = append(feas, calls)
	})
	if !res.Complete || len(feas) == 0 {
		return nil, false
	}
	for _, e := range feas[0] {
		inAll := true
		for _, other := range feas[1:] {
			f := false
			for _, o := range other {
				if o.Callee == e.Callee && argsKey(o.Args) == argsKey(e.Args) {
					f = true
				}
			}
			if !f {
				inAll = false
			}
		}
		if inAll {
			must = append(must, e)
		}
	}
	return must, true
}

func argsKey(as []*an.Term) string {
	var ks []string
	for _, a := range as {
		ks = append(ks, a.String())
	}
	return strings.Join(ks, ",")
}

// expandedEvents returns the events of the path with deferred closures replaced by the calls they must perform.
func expandedEvents(s *an.PathState) []an.Event {
	var out []an.Event
	for _, e := range s.Events {
		if e.Kind == "call" && e.Deferred {
			if _, _, isBody := deferredBody(s, e); isBody {
				if must, ok := deferredClosureCalls(s, e); ok {
					out = append(out, must...)
					continue
				}
			}
		}
		out = append(out, e)
	}
	return out
}

// indexOfInstr returns the position of the event produced by instruction in (not deferred), or -1.
func indexOfInstr(evs []an.Event, in ssa.Instruction) int {
	for i, e := range evs {
		if e.In == in && !e.Deferred && e.Kind != "defer" {
			return i
		}
	}
	return -1
}

func pathDesc(s *an.PathState) string {
	return fmt.Sprintf("%s: blocks %s [%s]", fnKey(s.Fn), s.BlockPath(), s.FactsString())
}

// callErrNil: the facts say that the error result of call term c is nil.
func callErrNil(s *an.PathState, c *an.Term) bool {
	ei := errIndexOf(c)
	for _, a := range s.Atoms {
		if a.Op != "==" || !a.B.IsConst("nil") {
			continue
		}
		cc, i := a.A.CallOf()
		if cc != nil && cc.K == c.K && (ei < 0 || i == ei || i == -1) {
			return true
		}
	}
	return false
}

// errIndexOf: the position of the error among the results of the call the term stands for (-1: unknown or none).
func errIndexOf(c *an.Term) int {
	if c == nil {
		return -1
	}
	ci, ok := c.V.(ssa.CallInstruction)
	if !ok {
		if v, isV := c.V.(*ssa.Call); isV {
			ci = v
		} else {
			return -1
		}
	}
	res := ci.Common().Signature().Results()
	for i := res.Len() - 1; i >= 0; i-- {
		if res.At(i).Type().String() == "error" {
			if res.Len() == 1 {
				return -1
			}
			return i
		}
	}
	return -1
}

// callErrNonNil: the facts say the error result of call c is non-nil.
func callErrNonNil(s *an.PathState, c *an.Term) bool {
	ei := errIndexOf(c)
	for _, a := range s.Atoms {
		if a.Op != "!=" || !a.B.IsConst("nil") {
			continue
		}
		cc, i := a.A.CallOf()
		if cc != nil && cc.K == c.K && (ei < 0 || i == ei || i == -1) {
			return true
		}
	}
	return false
}
