package rules

import (
	"go/types"
	"sort"

	"golang.org/x/tools/go/ssa"

	"verif/checker/internal/an"
)

// Root is a request-handling entry point discovered from the program itself.
type Root struct {
	Kind string // http sasl ldap
	Name string
	Fn   *ssa.Function
	Route string
}

// frontendRoots discovers: the functions stored into webHandler.H literals (HTTP), the closures handed to
// sasl.NewServer* (SASL callback), and the Bind methods of the values registered with (*ldap.Server).BindFunc.
func frontendRoots(p *an.Prog) []Root {
	var out []Root
	seen := map[*ssa.Function]bool{}
	add := func(kind string, f *ssa.Function, route string) {
		if f == nil || seen[f] {
			return
		}
		seen[f] = true
		out = append(out, Root{Kind: kind, Name: an.FnName(f), Fn: f, Route: route})
	}
	for _, fn := range pkgFns(p, mainPkg) {
		for _, b := range fn.Blocks {
			for _, in := range b.Instrs {
				switch x := in.(type) {
				case *ssa.Store:
					fa, ok := x.Addr.(*ssa.FieldAddr)
					if !ok {
						continue
					}
					fv := an.FieldVar(fa.X.Type(), fa.Field)
					if fv == nil || fv.Name() != "H" || fv.Pkg() == nil || fv.Pkg().Path() != mainPkg {
						continue
					}
					v := x.Val
					if ct, ok := v.(*ssa.ChangeType); ok {
						v = ct.X
					}
					if f, ok := v.(*ssa.Function); ok {
						add("http", f, "")
					} else if mc, ok := v.(*ssa.MakeClosure); ok {
						add("http", mc.Fn.(*ssa.Function), "")
					}
				case ssa.CallInstruction:
					name := an.CalleeName(x)
					switch name {
					case saslPkg + ".NewServer", saslPkg + ".NewServerFromListener":
						for _, a := range x.Common().Args {
							if ct, ok := a.(*ssa.ChangeType); ok {
								a = ct.X
							}
							if mc, ok := a.(*ssa.MakeClosure); ok {
								add("sasl", mc.Fn.(*ssa.Function), "")
							} else if f, ok := a.(*ssa.Function); ok {
								add("sasl", f, "")
							}
						}
					case "(*github.com/glauth/ldap.Server).BindFunc":
						for _, a := range x.Common().Args {
							if mi, ok := a.(*ssa.MakeInterface); ok {
								ms := p.SSA.MethodSets.MethodSet(mi.X.Type())
								for i := 0; i < ms.Len(); i++ {
									if ms.At(i).Obj().Name() == "Bind" {
										f := p.SSA.MethodValue(ms.At(i))
										if f != nil {
											add("ldap", f, "")
										}
									}
								}
							}
						}
					}
				}
			}
		}
	}
	sort.Slice(out, func(i, j int) bool { return out[i].Name < out[j].Name })
	return out
}

// isNamed reports whether t (or its pointee) is the named type pkg.name.
func isNamed(t types.Type, pkg, name string) bool {
	if p, ok := t.(*types.Pointer); ok {
		t = p.Elem()
	}
	n, ok := t.(*types.Named)
	if !ok || n.Obj().Pkg() == nil {
		return false
	}
	return n.Obj().Pkg().Path() == pkg && n.Obj().Name() == name
}
