package rules

import (
	"fmt"
	"go/token"
	"go/types"
	"sort"

	"golang.org/x/tools/go/ssa"

	"verif/checker/internal/an"
)

// Root is a request-handling entry point discovered from the program itself.
type Root struct {
	Kind     string // http sasl ldap
	Name     string
	Fn       *ssa.Function
	Route    string   // http: the pattern(s) the handler is registered under (route table, webroutes.go)
	Wrappers []string // http: the layers between the registration and the handler, outermost first
}

// frontendRoots discovers: the functions stored into webHandler.H literals (HTTP), the closures handed to
// sasl.NewServer* (SASL callback), and the Bind methods of the values registered with (*ldap.Server).BindFunc.
func frontendRoots(p *an.Prog) []Root {
	var out []Root
	seen := map[*ssa.Function]bool{}
	add := func(kind string, f *ssa.Function, route string) {
		if f == nil || seen[f] {
			return
		}
		seen[f] = true
		out = append(out, Root{Kind: kind, Name: an.FnName(f), Fn: f, Route: route})
	}
	frontendUnresolved = nil
	for _, fn := range pkgFns(p, mainPkg) {
		for _, in := range an.DeepInstrs(fn) {
			switch x := in.(type) {
			case *ssa.Store:
				fa, ok := x.Addr.(*ssa.FieldAddr)
				if !ok {
					continue
				}
				fv := an.FieldVar(fa.X.Type(), fa.Field)
				if fv == nil || an.CanonField(fa.X.Type(), fa.Field) != "H" || fv.Pkg() == nil || fv.Pkg().Path() != mainPkg {
					continue
				}
				fs := funcValues(p, x.Val, 0)
				if len(fs) == 0 {
					frontendUnresolved = append(frontendUnresolved, "handler stored at "+p.InstrPos(in))
				}
				for _, f := range fs {
					add("http", f, "")
				}
			case ssa.CallInstruction:
				name := an.CalleeName(x)
				switch name {
				case saslPkg + ".NewServer", saslPkg + ".NewServerFromListener":
					n := 0
					for _, a := range x.Common().Args {
						if _, isFn := a.Type().Underlying().(*types.Signature); !isFn {
							continue
						}
						for _, f := range funcValues(p, a, 0) {
							add("sasl", f, "")
							n++
						}
					}
					if n == 0 {
						frontendUnresolved = append(frontendUnresolved, "callback handed to "+name+" at "+p.InstrPos(in))
					}
				case "(*github.com/glauth/ldap.Server).BindFunc":
					n := 0
					for _, a := range x.Common().Args {
						if mi, ok := a.(*ssa.MakeInterface); ok {
							ms := p.SSA.MethodSets.MethodSet(mi.X.Type())
							for i := 0; i < ms.Len(); i++ {
								if ms.At(i).Obj().Name() == "Bind" {
									f := p.SSA.MethodValue(ms.At(i))
									if f != nil {
										add("ldap", f, "")
										n++
									}
								}
							}
						}
					}
					if n == 0 {
						frontendUnresolved = append(frontendUnresolved, "binder handed to BindFunc at "+p.InstrPos(in))
					}
				}
			}
		}
	}
	// which route each HTTP handler serves, and behind which wrappers (the handlers themselves are found from what is
	// stored into webHandler.H — through route helpers and factories —, so a wrapper around the registered value does
	// not hide them; the wrappers are judged by C11.5)
	for _, rt := range webRoutes(p) {
		for _, hf := range rt.Handlers {
			for i := range out {
				if out[i].Kind == "http" && out[i].Fn == hf {
					if out[i].Route != "" {
						out[i].Route += ","
					}
					out[i].Route += rt.Pattern
					out[i].Wrappers = append(out[i].Wrappers, rt.layerNames()...)
				}
			}
		}
	}
	sort.Slice(out, func(i, j int) bool { return out[i].Name < out[j].Name })
	return out
}

// isNamed reports whether t (or its pointee) is the named type pkg.name.
func isNamed(t types.Type, pkg, name string) bool {
	if p, ok := t.(*types.Pointer); ok {
		t = p.Elem()
	}
	n, ok := t.(*types.Named)
	if !ok || n.Obj().Pkg() == nil {
		return false
	}
	return n.Obj().Pkg().Path() == pkg && n.Obj().Name() == name
}

// frontendUnresolved lists registration sites whose function value could not be resolved (set by frontendRoots).
var frontendUnresolved []string

// frontendRootsProblem: a registration site that could not be resolved, or a kind of frontend without any root.
func frontendRootsProblem(roots []Root) string {
	if len(frontendUnresolved) > 0 {
		return "cannot resolve the " + frontendUnresolved[0]
	}
	n := map[string]int{}
	for _, r := range roots {
		n[r.Kind]++
	}
	if n["http"] < 8 || n["sasl"] < 1 || n["ldap"] < 1 {
		return fmt.Sprintf("found %d HTTP handlers, %d SASL callbacks, %d LDAP binders (the web API has 8 routes; one SASL callback and one LDAP binder at least)", n["http"], n["sasl"], n["ldap"])
	}
	return ""
}

// funcValues resolves a function-typed value to the functions it can be: functions, closures, conversions, phis and
// the results of module functions that return one (factories).
func funcValues(p *an.Prog, v ssa.Value, depth int) []*ssa.Function {
	if depth > 4 {
		return nil
	}
	switch x := v.(type) {
	case *ssa.Function:
		return []*ssa.Function{x}
	case *ssa.MakeClosure:
		return []*ssa.Function{x.Fn.(*ssa.Function)}
	case *ssa.ChangeType:
		return funcValues(p, x.X, depth)
	case *ssa.MakeInterface:
		return funcValues(p, x.X, depth)
	case *ssa.Phi:
		var out []*ssa.Function
		for _, e := range x.Edges {
			fs := funcValues(p, e, depth+1)
			if len(fs) == 0 {
				return nil
			}
			out = append(out, fs...)
		}
		return out
	case *ssa.Parameter:
		// the parameter of a route helper / factory (api(h) → webHandler{…, h}): what every call site passes
		vals := paramArgs(p, x)
		if len(vals) == 0 {
			return nil
		}
		var out []*ssa.Function
		for _, a := range vals {
			fs := funcValues(p, a, depth+1)
			if len(fs) == 0 {
				return nil
			}
			out = append(out, fs...)
		}
		return out
	case *ssa.FreeVar:
		bs := closureBindings(x)
		if len(bs) == 0 {
			return nil
		}
		var out []*ssa.Function
		for _, b := range bs {
			var fs []*ssa.Function
			if al, ok := b.(*ssa.Alloc); ok {
				fs = cellFuncValues(p, al, depth+1)
			} else {
				fs = funcValues(p, b, depth+1)
			}
			if len(fs) == 0 {
				return nil
			}
			out = append(out, fs...)
		}
		return out
	case *ssa.UnOp:
		if x.Op != token.MUL {
			return nil
		}
		var vals []ssa.Value
		switch a := x.X.(type) {
		case *ssa.Alloc:
			return cellFuncValues(p, a, depth+1)
		case *ssa.FieldAddr:
			// the function-typed column of a literal table (route table): every row's function
			vals, _ = rowFieldValues(p, a.X, a.Field, nil)
		case *ssa.IndexAddr:
			// an element of a literal table of function values (a list of middlewares)
			vals, _ = rowValues(p, a, nil)
		}
		return funcValuesAll(p, vals, depth+1)
	case *ssa.Field:
		vals, _ := rowFieldValues(p, x.X, x.Field, nil)
		return funcValuesAll(p, vals, depth+1)
	case *ssa.Index:
		vals, _ := rowValues(p, x, nil)
		return funcValuesAll(p, vals, depth+1)
	case *ssa.Call:
		g := x.Common().StaticCallee()
		if g == nil || !p.InRepo(g) || g.Signature.Results().Len() != 1 {
			return nil
		}
		var out []*ssa.Function
		for _, b := range g.Blocks {
			if r, ok := b.Instrs[len(b.Instrs)-1].(*ssa.Return); ok {
				fs := funcValues(p, r.Results[0], depth+1)
				if len(fs) == 0 {
					return nil
				}
				out = append(out, fs...)
			}
		}
		return out
	}
	return nil
}

// funcValuesAll: every value must resolve.
func funcValuesAll(p *an.Prog, vals []ssa.Value, depth int) []*ssa.Function {
	var out []*ssa.Function
	for _, v := range vals {
		fs := funcValues(p, v, depth)
		if len(fs) == 0 {
			return nil
		}
		out = append(out, fs...)
	}
	return out
}

// cellFuncValues: the functions a local variable can hold — every value stored into it must resolve.
func cellFuncValues(p *an.Prog, al *ssa.Alloc, depth int) []*ssa.Function {
	var out []*ssa.Function
	n := 0
	for _, r := range *al.Referrers() {
		switch y := r.(type) {
		case *ssa.Store:
			if y.Addr != ssa.Value(al) {
				return nil // the variable's address is handed on
			}
			n++
			fs := funcValues(p, y.Val, depth+1)
			if len(fs) == 0 {
				return nil
			}
			out = append(out, fs...)
		case *ssa.UnOp, *ssa.DebugRef:
		default:
			return nil
		}
	}
	if n == 0 {
		return nil
	}
	return out
}
