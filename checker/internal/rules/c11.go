package rules

import (
	"fmt"
	"go/token"
	"os"
	"sort"
	"strings"

	"golang.org/x/tools/go/ssa"

	"verif/checker/internal/an"
)

func init() {
	register(&PropRules{
		ID:      "C11",
		Explain: "Linearizability — structural preconditions: (C11.1) confinement: every access to s.dir and every call of a store-library (lib.Dir / UserHash) method in cmd/whawty-auth runs only in the dispatcher goroutine (role analysis over the VTA call graph; NewStore's accesses precede the `go` that starts it), and no `go` statement is reachable from the dispatcher, so each operation's effect lies between its request and its response; (C11.2) request/response pairing as in C10.2 (fresh private response channel ⇒ no cross-talk) and the SASL per-connection handler writes no shared state; (C11.3) internally generated writes are atomic with their check: the upgrade write (an update request without response channel) is performed only under a successful authentication of the same user with the same password in the same dispatcher turn (or not queued at all); (C11.4) reload (the pointer swap of s.dir) is called only from the dispatcher; (C11.5) nothing answers in a frontend's place while its store request is pending: every registered web route is served by a chain of layers (library wrappers and module middlewares, read from their SSA) each of which calls the next one inside its own call and writes no answer before it — a layer that runs the wrapped handler in a goroutine of its own (http.TimeoutHandler, a middleware selecting on time.After / ctx.Done) is refused —, no frontend entry point starts a goroutine that sends a store request, and the store's answer is received without a select alternative. Seed round 5: (C11.6, rule instance shared with C04.1) an authenticate answer is the answer Dir.Authenticate gave in the dispatcher turn that serves the request: s.authenticate calls it on s.dir with the request's own credentials on every path and returns its results 0..4 — no verdict, admin flag or timestamp from an earlier turn.",
		Undec:   []string{"real-time histories as such (only the single-writer/turn structure is decided)", "multi-process access to one directory", "races inside net/http, glauth/ldap and other libraries"},
		Run:     runC11,
		Floors:  map[string]int{"C11.1": 10, "C11.2": 18, "C11.3": 1, "C11.4": 1, "C11.5": 14, "C11.6": 2},
	})
	register(&PropRules{
		ID:      "C12",
		Explain: "Hash upgrades — structural part: (C12.1) UserHash.Authenticate reports upgradeable exactly as store.Default != <parameter-set id of the record just read> (false on every error return); (C12.2) the upgrade request is enqueued only under result.ok ∧ result.upgradeable ∧ upgradeChan != nil, carries the login's (username, password) unchanged and no response channel; NewStore maps \"\" → nil, \"local\" → the update queue, anything else → the remote upgrader (its error is fatal) and nothing else writes upgradeChan; (C12.3) a local upgrade is the ordinary update path (policy included, C17) and writeHashStr takes the hasher and the written parameter-set id from the same store.Default; (C12.4) the rewrite happens only for a password that is valid at rewrite time (= C11.3); (C12.5) with upgrades off no authentication can reach a mutation: the authenticate step has no call edge to a mutator (C15.2) and its only message is guarded by upgradeChan != nil. Seed round 5: (C12.6, rule instance shared with C08.3/C15.4) \"admin flag and auxiliary data unchanged\": an upgrade is an update through writeHashStr, which copies the rest of the old record verbatim behind the new first line on every path to the committing rename.",
		Undec:   []string{"liveness: 'on an idle agent the rewrite does happen'", "the remote master's behaviour", "digest values (C14)"},
		Run:     runC12,
		Floors:  map[string]int{"C12.1": 1, "C12.2": 3, "C12.3": 2, "C12.4": 1, "C12.6": 1},
	})
}

func runC11(c *an.Ctx, p *an.Prog, thorough bool) {
	// C11.6 = C04.1's store-side links: an authenticate answer is Dir.Authenticate's answer of this very turn
	authTurnRule(c, p, "C11.6")
	d := dispatcherFn(p)
	ns := p.Func("/cmd/whawty-auth", "NewStore")
	if !need(c, "C11.1", d, "dispatcher goroutine") || !need(c, "C11.1", ns, "main.NewStore") {
		return
	}
	// (a) confinement
	type acc struct {
		fn   *ssa.Function
		in   ssa.Instruction
		what string
	}
	var accs []acc
	for _, fn := range pkgFns(p, mainPkg) {
		for _, in := range an.DeepInstrs(fn) {
			{
				switch x := in.(type) {
				case *ssa.FieldAddr:
					if isNamed(x.X.Type(), mainPkg, "store") && fieldNameOf(x) == "dir" {
						accs = append(accs, acc{fn, in, "s.dir"})
					}
				case ssa.CallInstruction:
					if cal := x.Common().StaticCallee(); cal != nil && an.FnPkgPath(cal) == storePkg && cal.Signature.Recv() != nil {
						accs = append(accs, acc{fn, in, shortName(an.CalleeName(x))})
					}
				}
			}
		}
	}
	byFn := map[*ssa.Function][]acc{}
	for _, a := range accs {
		byFn[a.fn] = append(byFn[a.fn], a)
	}
	var fns []*ssa.Function
	for f := range byFn {
		fns = append(fns, f)
	}
	sort.Slice(fns, func(i, j int) bool { return fns[i].String() < fns[j].String() })
	for _, fn := range fns {
		var bad []string
		whats := map[string]bool{}
		for _, a := range byFn[fn] {
			whats[a.what] = true
		}
		if fn == ns {
			// all accesses precede the go statement that starts the dispatcher
			var goIn ssa.Instruction
			for _, gs := range p.GoSites() {
				if gs.Parent == ns {
					for _, cal := range gs.Callees {
						if cal == d {
							goIn = gs.In
						}
					}
				}
			}
			for _, a := range byFn[fn] {
				if goIn == nil || !instrBefore(a.in, goIn) {
					bad = append(bad, a.what+" at "+p.InstrPos(a.in)+" is not ordered before the start of the dispatcher")
				}
			}
			c.Check(len(bad) == 0, "C11.1", "confined|"+fnKey(fn), p.Pos(fn.Pos()), "constructor: "+joinS(sortedKeys(whats))+" before `go dispatcher`", strings.Join(bad, "; "))
			continue
		}
		for _, useCHA := range []bool{false, thorough} {
			if useCHA == false || thorough {
				for _, r := range p.Roles(fn, useCHA) {
					if r != d {
						bad = append(bad, fmt.Sprintf("%s also runs in goroutine role %s", fnKey(fn), fnKey(r)))
					}
				}
			}
		}
		c.Check(len(bad) == 0, "C11.1", "confined|"+fnKey(fn), p.Pos(fn.Pos()), "uses "+joinS(sortedKeys(whats))+"; runs only in the dispatcher goroutine", strings.Join(uniqS(bad), "; "))
	}
	// (b) no go statement reachable from the dispatcher
	{
		reach := p.Reach([]*ssa.Function{d}, an.ReachOpts{OnlyRepo: true})
		var bad []string
		for f := range reach {
			if !p.InRepo(f) {
				continue
			}
			for _, in := range an.DeepInstrs(f) {
				{
					if _, ok := in.(*ssa.Go); ok {
						bad = append(bad, "go statement in "+fnKey(f)+" at "+p.InstrPos(in)+" ("+an.Chain(reach, f)+")")
					}
				}
			}
		}
		sort.Strings(bad)
		c.Check(len(bad) == 0, "C11.1", "dispatcher|no-go", p.Pos(d.Pos()), fmt.Sprintf("no goroutine is started from the dispatcher's %d reachable module functions", len(reach)), strings.Join(bad, "; "))
	}
	// the store object is not leaked: *store (lower-case) values are used only by NewStore's callers to call GetInterface
	{
		var bad []string
		gi := p.Method("/cmd/whawty-auth", "store", "GetInterface")
		for _, fn := range pkgFns(p, mainPkg) {
			if fn.Signature.Recv() != nil && isNamed(fn.Signature.Recv().Type(), mainPkg, "store") {
				continue
			}
			if fn == ns {
				continue
			}
			for _, in := range an.DeepInstrs(fn) {
				{
					ci, ok := in.(ssa.CallInstruction)
					if !ok {
						continue
					}
					cal := ci.Common().StaticCallee()
					if cal != nil && cal.Signature.Recv() != nil && isNamed(cal.Signature.Recv().Type(), mainPkg, "store") && cal != gi {
						bad = append(bad, fnKey(fn)+" calls "+fnKey(cal)+" directly at "+p.InstrPos(in))
					}
				}
			}
		}
		c.Check(len(bad) == 0, "C11.1", "store-object|only-GetInterface", "-", "outside the store type only GetInterface is called on the internal store object", strings.Join(bad, "; "))
	}

	// C11.2 pairing (shared with C10.2)
	sub := an.NewCtx("C11", c.Tier, c.Seed)
	sub.P = p
	c102(sub, p)
	for _, o := range sub.Obs {
		if o.Rule == "C10.2" {
			k := strings.TrimPrefix(o.Key, "C10.2|")
			if o.Status == "discharged" {
				c.OK("C11.2", k, o.Pos, o.Detail)
			} else {
				c.Fail("C11.2", k, o.Pos, o.Detail)
			}
		}
	}
	if hc := p.Method("/sasl", "Server", "handleConnection"); need(c, "C11.2", hc, "sasl.(*Server).handleConnection") {
		var bad []string
		reach := p.Reach([]*ssa.Function{hc}, an.ReachOpts{OnlyRepo: true})
		for f := range reach {
			if an.FnPkgPath(f) != saslPkg {
				continue
			}
			for _, in := range an.DeepInstrs(f) {
				{
					st, ok := in.(*ssa.Store)
					if !ok {
						continue
					}
					root := st.Addr
					for {
						if fa, ok := root.(*ssa.FieldAddr); ok {
							root = fa.X
							continue
						}
						if ia, ok := root.(*ssa.IndexAddr); ok {
							root = ia.X
							continue
						}
						break
					}
					switch r := root.(type) {
					case *ssa.Global:
						bad = append(bad, "write to package variable "+r.Name()+" in "+fnKey(f))
					case *ssa.Parameter:
						if isNamed(r.Type(), saslPkg, "Server") {
							bad = append(bad, "write to a Server field in "+fnKey(f)+" at "+p.InstrPos(in))
						}
					}
				}
			}
		}
		c.Check(len(bad) == 0, "C11.2", "sasl-connection|no-shared-state", p.Pos(hc.Pos()), "the per-connection handler writes no package-level state and no Server field", strings.Join(bad, "; "))
	}

	c113(c, p, "C11.3")
	c115(c, p)

	// C11.4
	if rl := p.Method("/cmd/whawty-auth", "store", "reload"); need(c, "C11.4", rl, "main.(*store).reload") {
		var bad []string
		for _, r := range p.Roles(rl, false) {
			if r != d {
				bad = append(bad, "reload also runs in "+fnKey(r))
			}
		}
		// writers of s.dir: NewStore and reload only
		for _, fn := range pkgFns(p, mainPkg) {
			for _, in := range an.DeepInstrs(fn) {
				{
					if st, ok := in.(*ssa.Store); ok {
						if fa, ok := st.Addr.(*ssa.FieldAddr); ok && isNamed(fa.X.Type(), mainPkg, "store") && fieldNameOf(fa) == "dir" && fn != rl && fn != ns {
							bad = append(bad, "s.dir written in "+fnKey(fn)+" at "+p.InstrPos(in))
						}
					}
				}
			}
		}
		c.Check(len(bad) == 0, "C11.4", fnKey(rl)+"|dispatcher-only", p.Pos(rl.Pos()), "reload runs only in the dispatcher; s.dir is written only by NewStore and reload", strings.Join(bad, "; "))
	}
}

// c115: nothing answers in a frontend's place while its store request is pending. "Every response equals the
// sequential store semantics" presupposes that the answer a client gets IS the store's answer to its request: the
// frontend sends the request, waits for the store's answer without any alternative, and only then answers. Decided
// structurally: (a) every registered route of the web API (route table, webroutes.go) is served by a chain of layers
// each of which calls the next one inside its own call — in the goroutine that serves the request, returning only after
// it — and writes no answer before that call; a layer that runs the next handler in a goroutine of its own (and so can
// answer after a timeout / a cancelled context while the handler's request is still queued in the dispatcher:
// http.TimeoutHandler, a middleware with `go next.ServeHTTP` + select on time.After) is a violation, whether it is
// library or module code (both are read from their SSA); (b) no frontend entry point starts a goroutine that talks to
// the store, and (c) the store's answer is received unconditionally (no select alternative next to the receive on a
// response channel, C10-s3's shape). Layers that only pre-/post-process (logging, headers, StripPrefix,
// MaxBytesReader, a method check that refuses without calling on) satisfy (a).
func c115(c *an.Ctx, p *an.Prog) {
	routes := webRoutes(p)
	nWeb := 0
	ord := &ordinal{}
	for _, rt := range routes {
		key := ord.next("route=" + rt.Pattern)
		touches := false
		for _, hf := range rt.Handlers {
			if len(storeMethodsCalled(p, hf)) > 0 {
				touches = true
			}
		}
		if touches {
			nWeb++
		}
		var bad, und []string
		for _, u := range rt.Unresolved {
			und = append(und, "UNRESOLVED: "+u)
		}
		for _, l := range rt.Layers {
			where := ""
			if l.Site != nil {
				where = " (put on the route at " + p.InstrPos(l.Site) + ")"
			}
			for _, a := range l.Async {
				bad = append(bad, "layer "+l.Name+where+" can answer in the handler's place while the handler — and the store request it has sent — is still pending: "+a+"; the client gets an answer that is not the store's, the request is executed later and can overwrite a change acknowledged in between")
			}
			for _, e := range l.Early {
				bad = append(bad, "layer "+l.Name+where+" answers before the handler has run: "+e)
			}
			for _, o := range l.Opaque {
				und = append(und, "UNRESOLVED: layer "+l.Name+where+": "+o)
			}
		}
		if len(rt.Handlers) == 0 && len(rt.Terminals) == 0 && len(und) == 0 {
			und = append(und, "UNRESOLVED: no handler found behind the registration")
		}
		var hs []string
		for _, hf := range rt.Handlers {
			hs = append(hs, fnKey(hf))
		}
		chain := strings.Join(append(append(rt.layerNames(), hs...), rt.Terminals...), " → ")
		if os.Getenv("WACHECK_DEBUG_ROUTES") != "" {
			fmt.Fprintf(os.Stderr, "ROUTE %s at %s: %s unresolved=%v\n", rt.Pattern, p.InstrPos(rt.Site), chain, rt.Unresolved)
		}
		switch {
		case len(bad) > 0:
			c.Fail("C11.5", key+"|answered-by-its-handler", p.InstrPos(rt.Site), strings.Join(uniqS(append(bad, und...)), "; "))
		case len(und) > 0:
			c.Undecided("C11.5", key+"|answered-by-its-handler", p.InstrPos(rt.Site), strings.Join(uniqS(und), "; "))
		default:
			c.OK("C11.5", key+"|answered-by-its-handler", p.InstrPos(rt.Site), "chain: "+chain+" — every layer calls the next inside its own call and writes nothing before it")
		}
	}
	if nWeb < 8 {
		c.Undecided("C11.5", "routes", "-", fmt.Sprintf("UNRESOLVED: %d registered routes lead to handlers that use the Store, confirmed floor 8", nWeb))
	}
	// (b) + (c) per frontend entry point
	resp := map[*ssa.MakeChan]bool{}
	for _, fn := range pkgFns(p, mainPkg) {
		if fn.Signature.Recv() == nil || !isNamed(fn.Signature.Recv().Type(), mainPkg, "Store") {
			continue
		}
		for _, in := range an.DeepInstrs(fn) {
			if mk, ok := in.(*ssa.MakeChan); ok {
				resp[mk] = true
			}
		}
	}
	isClient := func(f *ssa.Function) bool {
		return f != nil && f.Signature.Recv() != nil && isNamed(f.Signature.Recv().Type(), mainPkg, "Store") && an.FnPkgPath(f) == mainPkg
	}
	for _, r := range frontendRoots(p) {
		var bad []string
		all := p.Reach([]*ssa.Function{r.Fn}, an.ReachOpts{OnlyRepo: true, CrossGo: true})
		for _, gs := range p.GoSites() {
			if _, ok := all[gs.Parent]; !ok {
				continue
			}
			sub := p.Reach(gs.Callees, an.ReachOpts{OnlyRepo: true, CrossGo: true})
			for f := range sub {
				if isClient(f) {
					bad = append(bad, "the goroutine started at "+p.InstrPos(gs.In)+" in "+fnKey(gs.Parent)+" sends a store request (Store."+f.Name()+"): the frontend can answer while that request is pending")
				}
			}
		}
		for _, o := range p.ChanOps() {
			if _, ok := all[o.Fn]; !ok || o.Kind != "recv" || !o.InSelect {
				continue
			}
			for _, m := range o.Sites {
				if resp[m] {
					bad = append(bad, "the store's answer is received in a select with other branches at "+p.InstrPos(o.In)+" in "+fnKey(o.Fn)+": when another branch wins the request stays queued and is executed after the frontend has answered")
				}
			}
		}
		c.Check(len(bad) == 0, "C11.5", "frontend="+r.Name+"|store-request-awaited", p.Pos(r.Fn.Pos()), "no goroutine started below this entry point talks to the store; the store's answer is received unconditionally", strings.Join(uniqS(bad), "; "))
	}
}

// instrBefore: a executes before b on every path that reaches b (a's block dominates b's, or same block earlier).
func instrBefore(a, b ssa.Instruction) bool {
	if a.Block() == b.Block() {
		for _, in := range a.Block().Instrs {
			if in == a {
				return true
			}
			if in == b {
				return false
			}
		}
	}
	return a.Block().Dominates(b.Block())
}

// c113: the dispatcher's internally generated update (response == nil) is guarded by a same-turn authentication.
func c113(c *an.Ctx, p *an.Prog, rule string) {
	d := dispatcherFn(p)
	if d == nil {
		return
	}
	n := 0
	var bad []string
	dispatcherCases(d, func(dc dispCase) {
		s := dc.S
		respKey := dc.Req.K + ".response"
		respNil := false
		for _, a := range s.Atoms {
			if a.Op == "==" && a.A.K == respKey && a.B.IsConst("nil") {
				respNil = true
			}
		}
		if !respNil {
			return
		}
		for i, e := range s.Events {
			if e.Kind != "call" || e.Fn == nil || !p.InRepo(e.Fn) {
				continue
			}
			// does this call reach a library write?
			isWrite := false
			reach := p.Reach([]*ssa.Function{e.Fn}, an.ReachOpts{OnlyRepo: true})
			for f := range reach {
				if an.FnPkgPath(f) == storePkg && (f.Name() == "UpdateUser" || f.Name() == "AddUser" || f.Name() == "writeHashStr") {
					isWrite = true
				}
			}
			if !isWrite {
				continue
			}
			n++
			// a preceding successful authentication of the same (user, password) on this path
			ok := false
			for _, a := range s.Events[:i] {
				if a.Kind != "call" || a.Callee != "(*"+storePkg+".Dir).Authenticate" {
					continue
				}
				if a.Args[1].K == dc.Req.K+".username" && a.Args[2].K == dc.Req.K+".password" && extractTrue(s, a.Res, 0) && extractNil(s, a.Res, 4) {
					ok = true
				}
			}
			// the written credentials are the request's
			if len(e.Args) >= 3 && (e.Args[1].K != dc.Req.K+".username" || e.Args[2].K != dc.Req.K+".password") {
				bad = append(bad, "the upgrade writes ("+e.Args[1].K+", "+e.Args[2].K+"), not the queued credentials")
			}
			if !ok {
				bad = append(bad, "a queued upgrade (request without response channel) is written by "+shortName(e.Callee)+" without re-authenticating the same user and password in the same dispatcher turn: an update acknowledged in between is overwritten with the old password (path "+s.BlockPath()+")")
			}
		}
	})
	if n == 0 {
		// no internally generated write at all: nothing to guard (e.g. upgrades done inside the authenticate step)
		c.OK(rule, "dispatcher|upgrade-write-guarded", p.Pos(d.Pos()), "the dispatcher performs no write for requests without a response channel")
		return
	}
	c.Check(len(bad) == 0, rule, "dispatcher|upgrade-write-guarded", p.Pos(d.Pos()), fmt.Sprintf("%d upgrade write(s), each under Dir.Authenticate(same user, same password) ok ∧ err==nil in the same turn", n), strings.Join(uniqS(bad), "; "))
}

// ---- C12 ----

func runC12(c *an.Ctx, p *an.Prog, thorough bool) {
	// C12.6 = C08.3/C15.4: an upgrade rewrites only the first line; the rest of the record is copied verbatim
	c083under(c, p, newFsx(p), "C12.6")
	// C12.1
	if fn := p.Method("/store", "UserHash", "Authenticate"); need(c, "C12.1", fn, "store.(*UserHash).Authenticate") {
		var bad []string
		nDeleg := 0
		an.EnumPaths(fn, nil, nil, func(s *an.PathState) {
			ret := lastReturn(s)
			if ret == nil {
				return
			}
			up := ret.Args[2]
			k, _ := exitKind(s)
			if up.IsConst("false") {
				if k != "error" {
					bad = append(bad, "upgradeable is constant false on a non-error return (path "+s.BlockPath()+")")
				}
				return
			}
			// must be Default != paramID with paramID from readHashStr of this call
			okShape := false
			if up.Op == "binop" && up.Aux == "!=" {
				a, b := up.Args[0], up.Args[1]
				for _, pr := range [][2]*an.Term{{a, b}, {b, a}} {
					if pr[0].Op == "load" && isStoreField(pr[0].Args[0], "Dir", "Default") {
						if rc, i := pr[1].CallOf(); rc != nil && rc.Aux == storePkg+".readHashStr" && i == 2 {
							okShape = true
						}
					}
				}
			}
			if !okShape {
				bad = append(bad, "upgradeable is "+up.K+", expected store.Default != <parameter-set id read from the file>")
				return
			}
			if k != "error" {
				nDeleg++
			}
		})
		c.Check(len(bad) == 0 && nDeleg > 0, "C12.1", fnKey(fn)+"|upgradeable", p.Pos(fn.Pos()), "upgradeable == (store.Default != record's parameter-set id) on every non-error return", strings.Join(uniqS(bad), "; "))
	}
	// C12.2 enqueue guard
	sa := p.Method("/cmd/whawty-auth", "store", "authenticate")
	if need(c, "C12.2", sa, "main.(*store).authenticate") {
		var bad []string
		n := 0
		chk := func(s *an.PathState, ch, val *an.Term) {
			n++
			if !(ch.Op == "load" && ch.Args[0].Aux == "upgradeChan") {
				bad = append(bad, "message sent on "+ch.K+", not on upgradeChan")
			}
			// guards
			var call *an.Term
			for _, e := range s.Events {
				if e.Kind == "call" && e.Callee == "(*"+storePkg+".Dir).Authenticate" {
					call = e.Res
				}
			}
			if call == nil {
				bad = append(bad, "enqueue without a Dir.Authenticate call")
				return
			}
			okOk, okUp, okNN := false, false, false
			for _, a := range s.Atoms {
				if a.Op == "true" && a.A.K == extractOf(call, 0).K {
					okOk = true
				}
				if a.Op == "true" && a.A.K == extractOf(call, 2).K {
					okUp = true
				}
				if a.Op == "!=" && a.A.K == ch.K && a.B.IsConst("nil") {
					okNN = true
				}
			}
			if !okOk {
				bad = append(bad, "upgrade enqueued without result.ok (a failed login would trigger a rewrite) on path "+s.BlockPath()+" ["+s.FactsString()+"]")
			}
			if !okUp {
				bad = append(bad, "upgrade enqueued without result.upgradeable on path "+s.BlockPath())
			}
			if !okNN {
				bad = append(bad, "upgrade enqueued without upgradeChan != nil")
			}
			// payload
			if val.Op == "load" && val.Args[0].Op == "alloc" {
				al := val.Args[0]
				if u := s.MemKey("&" + al.K + ".username"); u == nil || u.K != s.T(sa.Params[1]).K {
					bad = append(bad, "queued user name is not the login's")
				}
				if pw := s.MemKey("&" + al.K + ".password"); pw == nil || pw.K != s.T(sa.Params[2]).K {
					bad = append(bad, "queued password is not the login's")
				}
				if r := s.MemKey("&" + al.K + ".response"); r != nil && !r.IsConst("nil") {
					bad = append(bad, "queued upgrade carries a response channel")
				}
			} else {
				bad = append(bad, "queued value is not a local updateRequest literal: "+val.K)
			}
		}
		for _, in := range an.Targets(sa, func(in ssa.Instruction) bool {
			switch in.(type) {
			case *ssa.Send, *ssa.Select:
				return true
			}
			return false
		}) {
			an.EnumPaths(sa, nil, in, func(s *an.PathState) {
				switch x := in.(type) {
				case *ssa.Send:
					chk(s, s.T(x.Chan), s.T(x.X))
				case *ssa.Select:
					for _, st := range x.States {
						if st.Send != nil {
							chk(s, s.T(st.Chan), s.T(st.Send))
						}
					}
				}
			})
		}
		// converse: whenever ok ∧ upgradeable ∧ a queue is configured, the enqueue is attempted (no further condition
		// may suppress it — otherwise some upgradeable hashes are never rewritten, however often the user logs in)
		{
			nAll := 0
			an.EnumPaths(sa, nil, nil, func(s *an.PathState) {
				var call *an.Term
				for _, e := range s.Events {
					if e.Kind == "call" && e.Callee == "(*"+storePkg+".Dir).Authenticate" {
						call = e.Res
					}
				}
				if call == nil {
					return
				}
				okOk, okUp, okNN := false, false, false
				for _, a := range s.Atoms {
					if a.Op == "true" && a.A.K == extractOf(call, 0).K {
						okOk = true
					}
					if a.Op == "true" && a.A.K == extractOf(call, 2).K {
						okUp = true
					}
					if a.Op == "!=" && a.B != nil && a.B.IsConst("nil") && strings.Contains(a.A.K, "upgradeChan") {
						okNN = true
					}
				}
				if !(okOk && okUp && okNN) {
					return
				}
				nAll++
				attempted := false
				for _, e := range s.Events {
					if (e.Kind == "send" || e.Kind == "select") && len(e.Args) > 0 && strings.Contains(e.Args[0].K, "upgradeChan") {
						attempted = true
					}
				}
				if !attempted {
					bad = append(bad, "a path with ok ∧ upgradeable ∧ upgradeChan != nil does not attempt the enqueue (extra condition suppresses upgrades): "+s.BlockPath()+" ["+s.FactsString()+"]")
				}
			})
			if nAll == 0 {
				bad = append(bad, "no path establishes ok ∧ upgradeable ∧ upgradeChan != nil")
			}
		}
		c.Check(len(bad) == 0 && n > 0, "C12.2", fnKey(sa)+"|enqueue-guard", p.Pos(sa.Pos()), "enqueue exactly under ok ∧ upgradeable ∧ upgradeChan != nil (no weaker and no further condition), with the login's credentials and no response channel", strings.Join(uniqS(bad), "; "))
	}
	// NewStore mode switch and writers of upgradeChan
	if ns := p.Func("/cmd/whawty-auth", "NewStore"); need(c, "C12.2", ns, "main.NewStore") {
		var bad []string
		modes := map[string]string{}
		for _, in := range an.DeepInstrs(ns) {
			{
				st, ok := in.(*ssa.Store)
				if !ok {
					continue
				}
				fa, ok := st.Addr.(*ssa.FieldAddr)
				if !ok || fieldNameOf(fa) != "upgradeChan" {
					continue
				}
				an.EnumPaths(ns, nil, in, func(s *an.PathState) {
					mode := "<other>"
					for _, a := range s.Atoms {
						if a.Op == "==" && a.A.K == s.T(ns.Params[1]).K {
							if v, ok := a.B.ConstString(); ok {
								mode = fmt.Sprintf("%q", v)
							}
						}
					}
					v := s.T(st.Val)
					desc := v.K
					switch {
					case v.IsConst("nil"):
						desc = "nil"
					case v.Op == "load" && v.Args[0].Aux == "updateChan":
						desc = "updateChan"
					case sameAsField(s, s.T(st.Addr), "updateChan", v):
						desc = "updateChan"
					case v.IsCallTo(mainPkg + ".runRemoteUpgrader"):
						desc = "runRemoteUpgrader(doUpgrades)"
						cc, _ := v.CallOf()
						if cc.Args[0].K != s.T(ns.Params[1]).K {
							bad = append(bad, "remote upgrader is not started with the doUpgrades argument")
						}
					}
					modes[mode] = desc
				})
			}
		}
		if modes[`""`] == "" {
			// no assignment for the empty mode: the field of the freshly allocated store keeps its zero value, nil
			du := ""
			an.EnumPaths(ns, nil, nil, func(s *an.PathState) {
				if du == "" {
					du = s.T(ns.Params[1]).K
				}
				isEmpty := false
				for _, a := range s.Atoms {
					if a.Op == "==" && a.B != nil && a.A.K == du && a.B.IsConst(`""`) {
						isEmpty = true
					}
				}
				if !isEmpty {
					return
				}
				wrote, fresh := false, false
				for _, e := range s.Events {
					if e.Kind == "store" && e.Args[0].Op == "fieldaddr" {
						if e.Args[0].Aux == "upgradeChan" {
							wrote = true
						}
						if e.Args[0].Aux == "updateChan" && e.Args[0].Args[0].Op == "alloc" {
							fresh = true
						}
					}
				}
				if !wrote && fresh && modes[`""`] == "" {
					modes[`""`] = "nil"
				}
				if wrote {
					modes[`""`] = "assigned on some path"
				}
			})
		}
		want := map[string]string{`""`: "nil", `"local"`: "updateChan", "<other>": "runRemoteUpgrader(doUpgrades)"}
		for k, w := range want {
			if modes[k] != w {
				bad = append(bad, fmt.Sprintf("mode %s sets upgradeChan to %q, expected %s", k, modes[k], w))
			}
		}
		// remote upgrader error is fatal
		an.EnumPaths(ns, nil, nil, func(s *an.PathState) {
			for _, e := range s.Events {
				if e.Kind == "call" && e.Callee == mainPkg+".runRemoteUpgrader" && callErrNonNil(s, e.Res) {
					ret := lastReturn(s)
					if ret == nil || ret.Args[1].K != extractOf(e.Res, 1).K {
						bad = append(bad, "an invalid upgrade mode does not make NewStore fail")
					}
					for _, e2 := range s.Events {
						if e2.Kind == "go" {
							bad = append(bad, "dispatcher started although the upgrade mode is invalid")
						}
					}
				}
			}
		})
		// other writers
		for _, fn := range pkgFns(p, mainPkg) {
			if fn == ns {
				continue
			}
			for _, in := range an.DeepInstrs(fn) {
				{
					if st, ok := in.(*ssa.Store); ok {
						if fa, ok := st.Addr.(*ssa.FieldAddr); ok && fieldNameOf(fa) == "upgradeChan" {
							bad = append(bad, "upgradeChan written in "+fnKey(fn)+" at "+p.InstrPos(in))
						}
					}
				}
			}
		}
		c.Check(len(bad) == 0, "C12.2", fnKey(ns)+"|upgrade-mode-switch", p.Pos(ns.Pos()), fmt.Sprintf("mode → queue: %v; no other writer", modes), strings.Join(uniqS(bad), "; "))
	}
	// runRemoteUpgrader: only http/https accepted
	if rr := p.Func("/cmd/whawty-auth", "runRemoteUpgrader"); need(c, "C12.2", rr, "main.runRemoteUpgrader") {
		var bad []string
		an.EnumPaths(rr, nil, nil, func(s *an.PathState) {
			ret := lastReturn(s)
			if ret == nil {
				return
			}
			ch, e := ret.Args[0], ret.Args[1]
			scheme := ""
			for _, a := range s.Atoms {
				if a.Op == "==" && strings.HasSuffix(a.A.K, ".Scheme)") {
					scheme, _ = a.B.ConstString()
				}
			}
			if ch.StripConv().Op == "make" {
				if scheme != "http" && scheme != "https" {
					bad = append(bad, "a queue is returned for scheme "+scheme)
				}
				ngo := 0
				for _, ev := range s.Events {
					if ev.Kind == "go" && ev.Callee == mainPkg+".remoteHTTPUpgrader" && ev.Args[0].StripConv().K == ch.StripConv().K {
						ngo++
					}
				}
				if ngo != 1 {
					bad = append(bad, fmt.Sprintf("the returned queue has %d consumers", ngo))
				}
			} else if !(s.NonNil(e) || e.IsCallTo("errors.New") || e.IsCallTo("fmt.Errorf")) {
				bad = append(bad, "no queue and no error returned on path "+s.BlockPath())
			}
		})
		c.Check(len(bad) == 0, "C12.2", fnKey(rr)+"|schemes", p.Pos(rr.Pos()), "a consumed queue for http/https, an error otherwise", strings.Join(uniqS(bad), "; "))
	}
	// C12.3: writeHashStr consistency
	if whs := p.Method("/store", "UserHash", "writeHashStr"); need(c, "C12.3", whs, "store.(*UserHash).writeHashStr") {
		var bad []string
		n := 0
		for _, ci := range an.CallsTo(whs, "io.WriteString", "(*os.File).WriteString", "(*os.File).Write", "fmt.Fprintf") {
			an.EnumPaths(whs, nil, ci, func(s *an.PathState) {
				a := s.CallArgs(ci)
				_, parts, ok := writtenText(an.CalleeName(ci), a)
				if !ok {
					return
				}
				fargs, ok := matchParts(parts, "%s:%d:%d:%s\n")
				n++
				if !ok || len(fargs) != 4 {
					bad = append(bad, "record line has unexpected operands")
					return
				}
				va := &an.Term{Op: "varargs", Args: fargs}
				pid := va.Args[2]
				if !(pid.Op == "load" && isStoreField(pid.Args[0], "Dir", "Default")) {
					bad = append(bad, "written parameter-set id is "+pid.K+", not store.Default")
				}
				gen, _ := va.Args[3].CallOf()
				if gen == nil || !strings.HasSuffix(gen.Aux, "Hasher.Generate") {
					bad = append(bad, "digest field is not hasher.Generate(password)")
					return
				}
				h := gen.Args[0]
				if lk := lookupOf(h); !(lk != nil && lk.Args[1].K == pid.K && lk.Args[0].Op == "load" && isStoreField(lk.Args[0].Args[0], "Dir", "Params")) {
					bad = append(bad, "hasher is "+h.K+", not store.Params[store.Default]")
				}
				if gen.Args[1].K != s.T(whs.Params[1]).K {
					bad = append(bad, "digest is generated for "+gen.Args[1].K+", not for the password parameter")
				}
				fid, _ := va.Args[0].CallOf()
				if fid == nil || !strings.HasSuffix(fid.Aux, "Hasher.GetFormatID") || fid.Args[0].K != h.K {
					bad = append(bad, "algorithm identifier does not come from the same hasher")
				}
			})
		}
		c.Check(len(bad) == 0 && n > 0, "C12.3", fnKey(whs)+"|default-set", p.Pos(whs.Pos()), "hasher, algorithm id and written parameter-set id all derive from the same store.Default", strings.Join(uniqS(bad), "; "))
	}
	// the dispatcher's response-less branch uses the ordinary update path
	if d := dispatcherFn(p); need(c, "C12.3", d, "dispatcher") {
		n := 0
		var bad []string
		upd := p.Method("/cmd/whawty-auth", "store", "update")
		dispatcherCases(d, func(dc dispCase) {
			if dc.ChanField != "updateChan" {
				return
			}
			for _, e := range dc.S.Events {
				if e.Kind == "call" && e.Fn != nil && an.FnPkgPath(e.Fn) == storePkg && (e.Fn.Name() == "UpdateUser" || e.Fn.Name() == "Update" || e.Fn.Name() == "AddUser") {
					n++
					bad = append(bad, "update case writes through "+fnKey(e.Fn)+" directly instead of s.update (policy would be bypassed)")
				}
				if e.Kind == "call" && e.Fn != nil && an.FnPkgPath(e.Fn) == mainPkg && e.Fn.Signature.Recv() != nil && isNamed(e.Fn.Signature.Recv().Type(), mainPkg, "store") {
					reach := p.Reach([]*ssa.Function{e.Fn}, an.ReachOpts{OnlyRepo: true})
					for f := range reach {
						if an.FnPkgPath(f) == storePkg && f.Name() == "UpdateUser" {
							n++
							if e.Fn != upd {
								bad = append(bad, "update case writes through "+fnKey(e.Fn)+" instead of s.update (policy would be bypassed)")
							}
						}
					}
				}
			}
		})
		c.Check(len(bad) == 0 && n > 0, "C12.3", "dispatcher|upgrade-uses-update", p.Pos(d.Pos()), "both branches of the update case write through s.update (policy included)", strings.Join(uniqS(bad), "; "))
	}
	c113(c, p, "C12.4")
	// C12.5: remote upgrades keep happening: the rate-limit slot is given back on every path of the upgrade job
	semaphoreReleased(c, p, "C12.5")
	_ = token.ADD
}

// sameAsField: v is the value currently held by sibling field f of the struct whose field address is addr.
func sameAsField(s *an.PathState, addr *an.Term, f string, v *an.Term) bool {
	if addr.Op != "fieldaddr" {
		return false
	}
	cur := s.MemKey("&" + addr.Args[0].K + "." + f)
	return cur != nil && cur.K == v.K
}
