package rules

import (
	"fmt"
	"testing"

	"verif/checker/internal/an"
)

func TestDbgRoots(t *testing.T) {
	p, err := an.Load(an.Config{Dir: "/repo"})
	if err != nil {
		t.Fatal(err)
	}
	for _, r := range frontendRoots(p) {
		fmt.Println(r.Kind, r.Name)
	}
}
