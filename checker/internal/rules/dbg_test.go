package rules

import (
	"fmt"
	"testing"

	"verif/checker/internal/an"
)

func TestDbgChans(t *testing.T) {
	p, err := an.Load(an.Config{Dir: "/repo"})
	if err != nil {
		t.Fatal(err)
	}
	for _, op := range p.ChanOps() {
		var ss []string
		for _, m := range op.Sites {
			ss = append(ss, fmt.Sprintf("%s(cap %d)", p.InstrPos(m), an.ChanCap(m)))
		}
		fmt.Printf("%-45s %-5s blocking=%-5v sel=%-5v nil=%-5v %v  [%s] roles=%v\n", an.FnName(op.Fn), op.Kind, op.Blocking, op.InSelect, op.NilPoss, ss, op.Desc, an.RoleNames(p.Roles(op.Fn, false)))
	}
}
