package rules

import (
	"fmt"
	"go/types"
	"sort"
	"strings"

	"golang.org/x/tools/go/ssa"

	"verif/checker/internal/an"
)

func init() {
	register(&PropRules{
		ID:      "C08",
		Explain: "Program-side necessary conditions of crash atomicity, decided on every CFG path of every function of package store that mutates a directory entry: (C08.1) no write-capable open and no content write except to a temp file in <base>/.tmp; (C08.2) on every path to the rename: first-line write, then aux copy, then tmp.Sync() with checked error, no write after the sync, rename source = that temp file, destination = the reserved/existing user file; (C08.3) the aux copy is reader.WriteTo(tmp) over the old file after skipping exactly one line; (C08.4) after a successful getTempFile every exit removes the temp file. Together with the hand argument in DESIGN §4 (a final name only ever points to the empty reservation, the old inode or a fully written and fsynced temp inode) this is the structural part of the property.",
		Undec:   []string{"the kernel / file system honouring fsync and atomic rename", "enumeration of concrete crash states and what a concurrent reader observes", "byte-level content of the files"},
		Run:     runC08,
		Floors:  map[string]int{"C08.1": 10, "C08.2": 1, "C08.3": 1, "C08.4": 1},
	})
	register(&PropRules{
		ID:      "C09",
		Explain: "Program-side necessary conditions of durability: (C09.1) the temp file is fsynced, with the error checked, before the rename that makes it visible; (C09.2) for every rename/unlink/creating-open of a user file, every path from it to a success exit of the operation passes Sync() on a handle of the base directory (directly or through a helper that does so on all its success paths); (C09.3) a directory created on the path of such an operation has its entry flushed too: a plain Mkdir is followed on every success exit by an fsync of the holding directory, a recursive MkdirAll (an unknown number of entries in different parents) is not allowed at all — except for the scratch directory <base>/.tmp below a base directory known to exist, whose loss loses nothing acknowledged.",
		Undec:   []string{"the file system honouring the persistence model", "enumeration of post-crash states", "for Remove, whose API has no error result, a failing directory fsync cannot be reported"},
		Run:     runC09,
		Floors:  map[string]int{"C09.1": 1, "C09.2": 4},
	})
}

// fsev is a file-system relevant event of a path with parsed operands.
type fsev struct {
	Idx    int
	Ev     an.Event
	Name   string
	Effect string
	Ops    []shape
	Handle *an.Term
	Call   *an.Term
}

func (x *fsx) fsEvents(s *an.PathState, evs []an.Event) []fsev {
	var out []fsev
	for i, e := range evs {
		if e.Kind != "call" {
			continue
		}
		name := e.Callee
		eff, ok := an.ExtEffects[name]
		if !ok {
			continue
		}
		fe := fsev{Idx: i, Ev: e, Name: name, Effect: eff, Call: e.Res}
		switch {
		case eff == "openfile":
			fe.Effect = an.EffFSOpenRW
			if len(e.Args) >= 2 {
				if fl, ok := e.Args[1].ConstInt(); ok {
					fe.Effect = an.ClassifyOpenFile(fl)
				}
			}
			fe.Ops = []shape{x.shapeOf(s, e.Args[0], 0)}
		case eff == "writer":
			var h *an.Term
			switch name {
			case "io.WriteString", "io.Copy", "fmt.Fprintf", "fmt.Fprint", "fmt.Fprintln":
				h = e.Args[0]
			case "(*bufio.Reader).WriteTo":
				h = e.Args[1]
			}
			fe.Handle = h
			sh := x.fileShape(s, h, 0)
			fe.Ops = []shape{sh}
			fe.Effect = an.EffFSWrite
			if sh.Kind == "other" && h != nil && h.V != nil && !strings.Contains(h.V.Type().String(), "os.File") {
				fe.Effect = "write-nonfile"
			}
		case fileOperands[name]:
			fe.Handle = e.Args[0]
			fe.Ops = []shape{x.fileShape(s, e.Args[0], 0)}
		default:
			idxs, ok := pathOperands[name]
			if !ok {
				continue
			}
			for _, j := range idxs {
				if j < len(e.Args) {
					fe.Ops = append(fe.Ops, x.shapeOf(s, e.Args[j], 0))
				}
			}
		}
		out = append(out, fe)
	}
	return out
}

// mutationFns: store functions that directly call a mutating primitive.
func mutationFns(p *an.Prog) []*ssa.Function {
	var out []*ssa.Function
	for _, fn := range storeFns(p) {
		calls, _ := p.ExtCalls(fn)
		for _, ec := range calls {
			if an.MutatingFS[ec.Effect] && ec.Effect != an.EffFSSync || ec.Effect == "writer" {
				out = append(out, fn)
				break
			}
		}
	}
	return out
}

func runC08(c *an.Ctx, p *an.Prog, thorough bool) {
	x := newFsx(p)
	c081(c, p, x)
	c082(c, p, x, "C08")
	c155b(c, p, x, "C08.2")
	c084(c, p, x, "C08.4")
}

// c081: no in-place write anywhere in package store.
func c081(c *an.Ctx, p *an.Prog, x *fsx) {
	for _, fn := range storeFns(p) {
		calls, unknown := p.ExtCalls(fn)
		for _, u := range unknown {
			c.Undecided("C08.1", fnKey(fn)+"|"+u.Name, p.InstrPos(u.In), "unclassified primitive "+u.Name)
		}
		ord := &ordinal{}
		for _, ec := range calls {
			switch {
			case ec.Name == "os.OpenFile":
				flags := an.OpenFileFlags(ec.In)
				var fs []string
				for _, f := range flags {
					fs = append(fs, fmt.Sprintf("%#o=%s", f, an.ClassifyOpenFile(f)))
				}
				c.Check(ec.Effect != an.EffFSOpenRW, "C08.1", siteKey(fn, ord, "os.OpenFile flags"), p.InstrPos(ec.In), "flag set {"+joinS(fs)+"}: no write-capable open", "flag set {"+joinS(fs)+"} contains a write-capable open (O_WRONLY/O_RDWR/O_TRUNC/O_APPEND): a user file could be modified in place")
			case ec.Effect == an.EffFSOpenRW:
				c.Fail("C08.1", siteKey(fn, ord, shortName(ec.Name)), p.InstrPos(ec.In), ec.Name+" opens or rewrites a file in place; records must be replaced by temp file + rename")
			case ec.Effect == "writer" || ec.Effect == an.EffFSWrite:
				opnd := 0
				if ec.Name == "(*bufio.Reader).WriteTo" {
					opnd = 1
				}
				shs, n := x.operandShapes(fn, ec.In, opnd, true, 0)
				c.Stats["cfg_paths_enumerated"] += n
				ok := len(shs) > 0
				for _, sh := range shs {
					if sh.Kind != "tmpfile" {
						ok = false
					}
				}
				c.Check(ok, "C08.1", siteKey(fn, ord, shortName(ec.Name)+" target"), p.InstrPos(ec.In), "content write goes to a temp file of <base>/.tmp on all paths", "content write target is "+joinS(shapeStrings(shs))+", not a temp file of <base>/.tmp")
			case ec.Effect == an.EffFSRead || ec.Effect == an.EffFSStat || ec.Effect == an.EffFSCreate || ec.Effect == an.EffFSRename || ec.Effect == an.EffFSDelete || ec.Effect == an.EffFSMkdir || ec.Effect == an.EffFSSync:
				c.OK("C08.1", siteKey(fn, ord, shortName(ec.Name)), p.InstrPos(ec.In), "classified "+ec.Effect+" (not a content write)")
			}
		}
		// interface writes (io.Writer.Write) inside package store
		for _, in := range an.DeepInstrs(fn) {
			{
				if ci, ok := in.(ssa.CallInstruction); ok && ci.Common().IsInvoke() {
					m := ci.Common().Method.Name()
					if m == "Write" || m == "WriteString" || m == "WriteAt" || m == "Truncate" {
						c.Undecided("C08.1", siteKey(fn, ord, "invoke "+m), p.InstrPos(in), "interface write in package store: target cannot be classified")
					}
				}
			}
		}
	}
}

// commitSites: (function, rename call) pairs where a temp file is renamed over a user file on some path.
type commitSite struct {
	Fn *ssa.Function
	In ssa.CallInstruction
}

func commitSites(p *an.Prog, x *fsx) []commitSite {
	var out []commitSite
	for _, fn := range storeFns(p) {
		for _, ci := range an.CallsTo(fn, "os.Rename") {
			out = append(out, commitSite{fn, ci})
		}
	}
	return out
}

// c082 checks the write/sync/rename protocol (C08.2, C08.3, C09.1) on every path to every rename in store.
func c082(c *an.Ctx, p *an.Prog, x *fsx, prop string) {
	for _, cs := range commitSites(p, x) {
		fn, ren := cs.Fn, cs.In
		type res struct{ bad []string }
		r := map[string]*res{"C08.2": {}, "C08.3": {}, "C09.1": {}}
		kind := ""
		npaths := 0
		er := an.EnumPaths(fn, nil, ren, func(s *an.PathState) {
			npaths++
			args := s.CallArgs(ren)
			src, dst := x.shapeOf(s, args[0], 0), x.shapeOf(s, args[1], 0)
			if src.Kind == "user" && dst.Kind == "user" {
				// extension change of one user (set-admin): no content involved
				if kind == "" {
					kind = "ext-change"
				}
				if src.User == nil || dst.User == nil || src.User.K != dst.User.K {
					r["C08.2"].bad = append(r["C08.2"].bad, "rename between files of different users: "+src.String()+" -> "+dst.String())
				}
				if src.Ext == dst.Ext || !(src.Ext == ".user" || src.Ext == ".admin") || !(dst.Ext == ".user" || dst.Ext == ".admin") {
					r["C08.2"].bad = append(r["C08.2"].bad, "rename does not switch between the two schema extensions: "+src.String()+" -> "+dst.String())
				}
				return
			}
			kind = "commit"
			if src.Kind != "tmpfile" || dst.Kind != "user" {
				r["C08.2"].bad = append(r["C08.2"].bad, fmt.Sprintf("rename %s -> %s is not temp-file -> user-file (path %s)", src, dst, s.BlockPath()))
				return
			}
			// the temp file handle: src = Name(F)
			sc, _ := args[0].CallOf()
			if sc == nil || sc.Aux != "(*os.File).Name" {
				r["C08.2"].bad = append(r["C08.2"].bad, "rename source is not tmp.Name(): "+args[0].K)
				return
			}
			F := sc.Args[0]
			// destination handle G: dst = Name(G) or a P_user string
			var G *an.Term
			if dc, _ := args[1].CallOf(); dc != nil && dc.Aux == "(*os.File).Name" {
				G = dc.Args[0]
			} else {
				// the destination is the path string itself: the handle opened at exactly that path
				for _, e := range s.Events {
					if e.Kind == "call" && (e.Callee == "os.OpenFile" || e.Callee == "os.Open") && len(e.Args) > 0 && e.Args[0].K == args[1].K {
						G = extractOf(e.Res, 0)
					}
				}
			}
			evs := x.fsEvents(s, s.Events)
			syncIdx, lastWrite, firstWrite, auxIdx := -1, -1, -1, -1
			var syncCall *an.Term
			for _, fe := range evs {
				if fe.Handle == nil || fe.Handle.K != F.K {
					continue
				}
				switch {
				case fe.Name == "(*os.File).Sync":
					syncIdx = fe.Idx
					syncCall = fe.Call
				case fe.Effect == an.EffFSWrite:
					if firstWrite < 0 {
						firstWrite = fe.Idx
					}
					lastWrite = fe.Idx
					if fe.Name == "(*bufio.Reader).WriteTo" || (fe.Name == "io.Copy" && len(fe.Ev.Args) == 2 && fe.Ev.Args[1].IsCallTo("bufio.NewReader")) {
						auxIdx = fe.Idx
						// reader over the old file, one line skipped
						rd := fe.Ev.Args[0]
						if fe.Name == "io.Copy" {
							rd = fe.Ev.Args[1] // io.Copy(tmp, reader): the reader itself, not a limited or wrapped one
						}
						rc, _ := rd.CallOf()
						okReader := rc != nil && rc.Aux == "bufio.NewReader" && G != nil && rc.Args[0].K == G.K
						if !okReader {
							r["C08.3"].bad = append(r["C08.3"].bad, "aux copy does not read from the file being replaced: reader is "+rd.K)
						}
						skips := 0
						for _, e2 := range s.Events[:fe.Idx] {
							if e2.Kind == "call" && e2.Callee == "(*bufio.Reader).ReadString" && e2.Args[0].K == rd.K {
								skips++
								if !e2.Args[1].IsConst("10") {
									r["C08.3"].bad = append(r["C08.3"].bad, "line skip uses delimiter "+e2.Args[1].K+" instead of '\\n'")
								}
							}
							if e2.Kind == "call" && e2.Callee != "(*bufio.Reader).ReadString" && e2.Callee != "bufio.NewReader" && len(e2.Args) > 0 && e2.Args[0].K == rd.K {
								r["C08.3"].bad = append(r["C08.3"].bad, "reader consumed by "+e2.Callee+" before the aux copy")
							}
						}
						if skips != 1 {
							r["C08.3"].bad = append(r["C08.3"].bad, fmt.Sprintf("%d lines skipped before the aux copy (exactly the old first line must be skipped)", skips))
						}
					}
				}
			}
			if firstWrite < 0 {
				r["C08.2"].bad = append(r["C08.2"].bad, "no content write to the temp file before the rename (path "+s.BlockPath()+")")
			}
			if auxIdx < 0 {
				r["C08.3"].bad = append(r["C08.3"].bad, "no aux-data copy (reader.WriteTo(tmp)) before the rename (path "+s.BlockPath()+")")
			} else if firstWrite == auxIdx {
				r["C08.3"].bad = append(r["C08.3"].bad, "aux data is written before the new first line")
			}
			if firstWrite < 0 || (syncIdx >= 0 && firstWrite > syncIdx) {
				r["C09.1"].bad = append(r["C09.1"].bad, "no content write to the temp file itself precedes its fsync (e.g. writes go through a buffer that is flushed later): the record would become visible before its content is durable (path "+s.BlockPath()+")")
			}
			// writers wrapped around the temp file must not exist: they would hold data back past the fsync
			for _, e := range s.Events {
				if e.Kind == "call" && (e.Callee == "bufio.NewWriter" || e.Callee == "bufio.NewWriterSize") && len(e.Args) > 0 && e.Args[0].K == F.K {
					flushed := false
					for _, e2 := range s.Events {
						if e2.Kind == "call" && !e2.Deferred && e2.Callee == "(*bufio.Writer).Flush" && e2.Args[0].K == e.Res.K && callErrNilSingle(s, e2.Res) && syncIdx >= 0 && indexOfInstr(s.Events, e2.In) < syncIdx {
							flushed = true
						}
					}
					if !flushed {
						r["C09.1"].bad = append(r["C09.1"].bad, "a buffered writer over the temp file is not flushed (with checked error) before the fsync")
					}
				}
			}
			if syncIdx < 0 {
				r["C09.1"].bad = append(r["C09.1"].bad, "temp file is not fsynced before the rename (path "+s.BlockPath()+")")
			} else {
				if lastWrite > syncIdx {
					r["C09.1"].bad = append(r["C09.1"].bad, "temp file is written after its fsync and before the rename")
				}
				if syncCall == nil || !callErrNil(s, syncCall) {
					r["C09.1"].bad = append(r["C09.1"].bad, "the fsync error is not checked before the rename (path "+s.BlockPath()+")")
				}
			}
			// every write must have its error checked before the rename
			for _, fe := range evs {
				if fe.Effect == an.EffFSWrite && fe.Handle != nil && fe.Handle.K == F.K && fe.Call != nil && !callErrNil(s, fe.Call) {
					r["C08.2"].bad = append(r["C08.2"].bad, "error of "+shortName(fe.Name)+" is not checked before the rename")
				}
			}
		})
		c.Stats["cfg_paths_enumerated"] += npaths
		if !er.Complete {
			c.Undecided(prop+".2", fnKey(fn)+"|rename", p.InstrPos(ren), "path limit")
			continue
		}
		key := fnKey(fn) + "|os.Rename"
		uniq := func(xs []string) string {
			m := map[string]bool{}
			var o []string
			for _, x := range xs {
				if !m[x] {
					m[x] = true
					o = append(o, x)
				}
			}
			sort.Strings(o)
			return strings.Join(o, "; ")
		}
		if prop == "C08" {
			c.Check(len(r["C08.2"].bad) == 0, "C08.2", key+"|"+kind, p.InstrPos(ren), fmt.Sprintf("%d paths to the rename: operands and write order conform (%s)", npaths, kind), uniq(r["C08.2"].bad))
			if kind == "commit" {
				c.Check(len(r["C08.3"].bad) == 0, "C08.3", key+"|aux-copy", p.InstrPos(ren), "aux lines of the old file are copied after the new first line on every path", uniq(r["C08.3"].bad))
				c.Check(len(r["C09.1"].bad) == 0, "C08.2", key+"|sync-before-rename", p.InstrPos(ren), "tmp.Sync() with checked error precedes the rename, no later write", uniq(r["C09.1"].bad))
			}
		} else if kind == "commit" {
			c.Check(len(r["C09.1"].bad) == 0, "C09.1", key+"|sync-before-rename", p.InstrPos(ren), fmt.Sprintf("tmp.Sync() with checked error precedes the rename on all %d paths, no write after the sync", npaths), uniq(r["C09.1"].bad))
		}
	}
}

// c084: temp-file cleanup on every exit after a successful temp-file creation.
func c084(c *an.Ctx, p *an.Prog, x *fsx, rule string) {
	for _, fn := range storeFns(p) {
		// call sites that yield a temp file handle
		var sites []*ssa.Call
		for _, in := range an.DeepInstrs(fn) {
			{
				call, ok := in.(*ssa.Call)
				if !ok {
					continue
				}
				cal := call.Common().StaticCallee()
				if cal == nil {
					continue
				}
				if an.CalleeName(call) == "os.CreateTemp" {
					continue // the helper that creates it returns it to its caller
				}
				if !p.InRepo(cal) {
					continue
				}
				sums := x.summary(cal, 0, true)
				if len(sums) == 1 && sums[0].Kind == "tmpfile" {
					sites = append(sites, call)
				}
			}
		}
		for _, site := range sites {
			var bad []string
			n := 0
			er := an.EnumPaths(fn, nil, nil, func(s *an.PathState) {
				idx := indexOfInstr(s.Events, site)
				if idx < 0 {
					return
				}
				ct := s.Events[idx].Res
				if !callErrNil(s, ct) {
					return // creation failed: nothing to clean
				}
				n++
				evs := expandedEvents(s)
				ok := false
				for _, e := range evs[idx:] {
					if e.Kind == "call" && e.Callee == "os.Remove" && len(e.Args) == 1 {
						nc, _ := e.Args[0].CallOf()
						if nc != nil && nc.Aux == "(*os.File).Name" {
							fc, _ := nc.Args[0].CallOf()
							if fc != nil && fc.K == ct.K {
								ok = true
							}
						}
					}
				}
				if !ok {
					bad = append(bad, "exit without removing the temp file: "+pathDesc(s))
				}
			})
			c.Stats["cfg_paths_enumerated"] += er.Paths
			if !er.Complete {
				bad = append(bad, "path limit")
			}
			c.Check(len(bad) == 0, rule, fnKey(fn)+"|tmp-cleanup", p.InstrPos(site), fmt.Sprintf("os.Remove(tmp.Name()) runs on all %d exits after a successful temp-file creation", n), strings.Join(bad, "; "))
		}
	}
}

// ---- C09 ----

func runC09(c *an.Ctx, p *an.Prog, thorough bool) {
	x := newFsx(p)
	c082(c, p, x, "C09")
	c092(c, p, x)
	c093(c, p, x)
}

// c093: directories created on the way to an acknowledged change. A directory entry is durable only after an fsync of
// the directory that holds it, so a directory that init/add/update/set-admin/remove creates before it reports success
// must have its entry flushed like any other: a plain Mkdir(P) followed, on every success exit, by an fsync of the
// directory holding P. A recursive MkdirAll creates an unknown number of levels, each in a different parent — no
// fsync the caller can name covers them — so it is a violation by itself. The one exception is the scratch directory
// <base>/.tmp created below a base directory that is known to exist (C03.5's condition): then the call creates at most
// the single entry ".tmp", and losing that entry loses nothing that was acknowledged — the record reaches its final
// name by a rename into <base> (made durable by C09.1/C09.2), no acknowledged state refers to .tmp or its content, and
// every later operation creates .tmp again when it is missing. Without the known-to-exist condition the exception does
// not apply: the same call would then also create <base> itself, whose entry is what holds every record.
func c093(c *an.Ctx, p *an.Prog, x *fsx) {
	sites := dirCreateSites(c, p, x)
	memo := map[*ssa.Function]int{}
	n := 0
	for _, st := range sites {
		if !st.Concerned {
			continue
		}
		n++
		pos := p.InstrPos(st.In)
		what := st.Name + "(" + joinS(shapeStrings(st.Shapes)) + ")"
		if len(st.Undec) > 0 {
			c.Undecided("C09.3", st.Key, pos, what+": "+strings.Join(uniqS(st.Undec), "; "))
			continue
		}
		if st.Scratch && (!st.Recursive || len(st.NoBase) == 0) {
			c.OK("C09.3", st.Key, pos, what+": creates at most the scratch entry .tmp (an entry of it) below an existing base directory; its loss loses no acknowledged change")
			continue
		}
		if st.Recursive {
			why := "a recursive MkdirAll on the path of an acknowledged operation creates directory entries (the directory and every missing ancestor) that are never fsynced in their parent directories: after a power loss the directory, and every record acknowledged in it, may be gone"
			if st.Scratch {
				why += " — the scratch-directory exception does not apply because the base directory is not known to exist: " + strings.Join(uniqS(st.NoBase), "; ")
			}
			c.Fail("C09.3", st.Key, pos, what+": "+why)
			continue
		}
		// plain Mkdir / MkdirTemp: the holding directory must be fsynced on every success exit after it
		var bad []string
		nsucc := 0
		for _, root := range an.InlineRoots(st.Fn) {
			er := an.EnumPaths(root, nil, nil, func(s *an.PathState) {
				evs := expandedEvents(s)
				idx := indexOfInstr(evs, st.In)
				if idx < 0 {
					return
				}
				if ct := evs[idx].Res; ct != nil && callErrNonNil(s, ct) {
					return
				}
				if k, _ := exitKind(s); k == "error" || k == "panic" {
					return
				}
				nsucc++
				if len(evs[idx].Args) == 0 || !x.holderSynced(p, s, evs, idx, evs[idx].Args[0], st.Name == "os.MkdirTemp", memo) {
					bad = append(bad, "success exit reached without fsync of the directory that holds the new entry: "+pathDesc(s))
				}
			})
			c.Stats["cfg_paths_enumerated"] += er.Paths
			if !er.Complete {
				bad = append(bad, "path limit")
			}
		}
		msg := strings.Join(bad, "; ")
		if len(bad) > 2 {
			msg = strings.Join(bad[:2], "; ") + fmt.Sprintf("; … (%d paths)", len(bad))
		}
		c.Check(len(bad) == 0, "C09.3", st.Key, pos, fmt.Sprintf("%s: all %d success paths after it fsync the directory holding the new entry", what, nsucc), what+": "+msg)
	}
	if n == 0 {
		c.OK("C09.3", "no-directory-creation", "-", "no directory-creating primitive on the path of a durable operation")
	}
}

// syncsBaseSummary: does module function h, on all its success paths, Sync() a handle of the directory
// given by parameter i (or of the base directory)? Returns the parameter index (or -2 for "base itself"), -1 if not.
func (x *fsx) syncsDirParam(h *ssa.Function) int {
	if len(h.Blocks) == 0 {
		return -1
	}
	result := -3
	er := an.EnumPaths(h, nil, nil, func(s *an.PathState) {
		k, _ := exitKind(s)
		if k == "error" || k == "panic" {
			return
		}
		found := -1
		for _, fe := range x.fsEvents(s, s.Events) {
			if fe.Name != "(*os.File).Sync" {
				continue
			}
			sh := fe.Ops[0]
			if sh.Kind == "base" {
				found = -2
			} else if sh.Kind == "param" {
				for i, prm := range h.Params {
					if prm.Name() == sh.Param {
						found = i
					}
				}
			}
		}
		if result == -3 {
			result = found
		} else if result != found {
			result = -1
		}
	})
	if !er.Complete || result == -3 {
		return -1
	}
	return result
}

func returnsError(fn *ssa.Function) bool {
	res := fn.Signature.Results()
	for i := 0; i < res.Len(); i++ {
		if types.Identical(res.At(i).Type(), types.Universe.Lookup("error").Type()) {
			return true
		}
	}
	return false
}

func c092(c *an.Ctx, p *an.Prog, x *fsx) {
	memo := map[*ssa.Function]int{}
	for _, fn := range storeFns(p) {
		type mut struct {
			in   ssa.Instruction
			name string
		}
		// collect mutation sites first (over all paths)
		sites := map[ssa.Instruction]string{}
		an.EnumPaths(fn, nil, nil, func(s *an.PathState) {
			for _, fe := range x.fsEvents(s, s.Events) {
				isUserOp := false
				for _, sh := range fe.Ops {
					if sh.Kind == "user" {
						isUserOp = true
					}
				}
				if !isUserOp || fe.Ev.Deferred {
					continue
				}
				switch fe.Effect {
				case an.EffFSRename, an.EffFSDelete, an.EffFSCreate:
					sites[fe.Ev.In] = fe.Name + " [" + fe.Effect + "]"
				}
			}
		})
		if len(sites) == 0 {
			continue
		}
		ord := &ordinal{}
		var ins []ssa.Instruction
		for in := range sites {
			ins = append(ins, in)
		}
		sort.Slice(ins, func(i, j int) bool { return ins[i].Pos() < ins[j].Pos() })
		for _, site := range ins {
			var bad []string
			nsucc := 0
			er := an.EnumPaths(fn, nil, nil, func(s *an.PathState) {
				idx := indexOfInstr(s.Events, site)
				if idx < 0 {
					return
				}
				// did the mutation happen on this path? (its own error, if any, must not be known non-nil)
				if ct := s.Events[idx].Res; ct != nil && callErrNonNil(s, ct) {
					return
				}
				// creating open only creates when O_CREATE is in the flags of this path
				if s.Events[idx].Callee == "os.OpenFile" {
					if fl, ok := s.Events[idx].Args[1].ConstInt(); !ok || an.ClassifyOpenFile(fl) != an.EffFSCreate {
						return
					}
				}
				k, r := exitKind(s)
				if k == "error" || k == "panic" {
					return
				}
				nsucc++
				evs := expandedEvents(s)
				synced := false
				for _, fe := range x.fsEvents(s, evs) {
					if fe.Idx <= idx {
						continue
					}
					if fe.Name == "(*os.File).Sync" && fe.Ops[0].Kind == "base" {
						synced = true
					}
					// an operation that cannot report failure (no error result, e.g. Remove) tried to open the base
					// directory for the fsync and that failed: same as calling a directory-sync helper and ignoring
					// its error — nothing this function could acknowledge differently
					if fe.Name == "os.Open" && len(fe.Ops) > 0 && fe.Ops[0].Kind == "base" && fe.Call != nil && callErrNonNil(s, fe.Call) && !returnsError(fn) {
						synced = true
					}
				}
				// helper calls that sync the directory on all their success paths
				for i, e := range evs {
					if i <= idx || e.Kind != "call" || e.Fn == nil || !p.InRepo(e.Fn) {
						continue
					}
					pi, ok := memo[e.Fn]
					if !ok {
						pi = x.syncsDirParam(e.Fn)
						memo[e.Fn] = pi
					}
					if pi == -2 {
						synced = true
					} else if pi >= 0 && pi < len(e.Args) {
						if sh := x.shapeOf(s, e.Args[pi], 0); sh.Kind == "base" {
							synced = true
						}
					}
				}
				_ = r
				if !synced {
					bad = append(bad, fmt.Sprintf("success exit (%s) reached without fsync of the base directory: %s", k, pathDesc(s)))
				}
			})
			c.Stats["cfg_paths_enumerated"] += er.Paths
			if !er.Complete {
				bad = append(bad, "path limit")
			}
			key := siteKey(fn, ord, shortName(strings.Fields(sites[site])[0]))
			msg := strings.Join(bad, "; ")
			if len(bad) > 2 {
				msg = strings.Join(bad[:2], "; ") + fmt.Sprintf("; … (%d paths)", len(bad))
			}
			c.Check(len(bad) == 0, "C09.2", key, p.InstrPos(site), fmt.Sprintf("%s on a user file: all %d success paths after it fsync the base directory", sites[site], nsucc), sites[site]+" on a user file: "+msg)
		}
	}
}
