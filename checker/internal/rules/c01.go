package rules

import (
	"fmt"
	"go/types"
	"strings"

	"golang.org/x/tools/go/ssa"

	"verif/checker/internal/an"
)

func init() {
	register(&PropRules{
		ID:      "C01",
		Explain: "Password verdict tracks the last acknowledged write — structural part: (C01.1) password identity: from every exported store entry point (Dir.AddUser/UpdateUser/Init/Authenticate, UserHash.Add/Update/Authenticate) to the password operand of each KDF call (argon2.IDKey in Generate and Check; scryptauth Gen/Check and, inside the dependency, scrypt.Key) the value is the parameter itself up to string→[]byte — no slicing, trimming, folding, and the temporary []byte copy is not written (e.g. cleared) before the callee reads it; (C01.2–C01.4) the verdict can be true only through parameter-set lookup, algorithm match and a constant-time comparison of the whole KDF output with the whole stored digest (shared with C02.1); (C01.5) file-name agreement: every user-file path is Join(BaseDir,user)+{.admin|.user}; getFilename's extension is decided by its flag; Exists consults .admin first and reports admin only for it, then .user; Remove unlinks both extensions of the same stem; SetAdmin renames between exactly these two in the direction of its argument; fileExists reports 'absent' only on IsNotExist; (C01.6) the reported admin flag and last-change are those of the record that was checked, and List reports the entry's own extension flag and time. Seed round 5: (C01.8) the converse of C01.2 — on every path of UserHash.Authenticate the verdict is the first result of the parameter-set's Hasher.Check for this call, or the error result is known non-nil; a refusal with a nil error that was not computed from the password makes a successfully written password unusable; likewise in the two hashers' Check a refusal without error is the digest comparison's outcome (ConstantTimeCompare != 1) or the dependency's Check results handed on together.",
		Undec:   []string{"correctness of scrypt / argon2id / HMAC (trusted)", "closure of the verdict under arbitrary operation histories and file-system behaviour", "the PBKDF2 key-equivalence classes named in the property"},
		Run:     runC01,
		Floors:  map[string]int{"C01.1": 10, "C01.2": 4, "C01.5": 5, "C01.8": 3},
	})
}

type plink struct {
	name   string
	fn     *ssa.Function
	callee string // callee name suffix to match ("a|b": either)
	// argument position (receiver = 0) of the password at the callee and the parameter index of the password in fn
	argPos, paramIdx int
	extra            func(s *an.PathState, args []*an.Term) []string
}

func findMethodAny(p *an.Prog, pkgPath, typ, name string) *ssa.Function {
	for _, pk := range p.SSA.AllPackages() {
		if pk.Pkg.Path() != pkgPath {
			continue
		}
		t := pk.Type(typ)
		if t == nil {
			return nil
		}
		ms := p.SSA.MethodSets.MethodSet(types.NewPointer(t.Type()))
		for i := 0; i < ms.Len(); i++ {
			if ms.At(i).Obj().Name() == name {
				return p.SSA.MethodValue(ms.At(i))
			}
		}
	}
	return nil
}

func runC01(c *an.Ctx, p *an.Prog, thorough bool) {
	sa := "gopkg.in/spreadspace/scryptauth.v2"
	links := []plink{
		{"Dir.AddUser -> UserHash.Add", p.Method("/store", "Dir", "AddUser"), "UserHash).Add", 1, 2, nil},
		{"Dir.UpdateUser -> UserHash.Update", p.Method("/store", "Dir", "UpdateUser"), "UserHash).Update", 1, 2, nil},
		{"Dir.Init -> Dir.AddUser", p.Method("/store", "Dir", "Init"), "Dir).AddUser", 2, 2, func(s *an.PathState, a []*an.Term) []string {
			if !a[3].IsConst("true") {
				return []string{"Init does not create an administrator"}
			}
			return nil
		}},
		{"Dir.Authenticate -> UserHash.Authenticate", p.Method("/store", "Dir", "Authenticate"), "UserHash).Authenticate", 1, 2, nil},
		{"UserHash.Add -> writeHashStr", p.Method("/store", "UserHash", "Add"), "UserHash).writeHashStr", 1, 1, nil},
		{"UserHash.Update -> writeHashStr", p.Method("/store", "UserHash", "Update"), "UserHash).writeHashStr", 1, 1, nil},
		{"writeHashStr -> Hasher.Generate", p.Method("/store", "UserHash", "writeHashStr"), "Hasher.Generate", 1, 1, nil},
		{"UserHash.Authenticate -> Hasher.Check", p.Method("/store", "UserHash", "Authenticate"), "Hasher.Check", 1, 1, nil},
		{"Argon2IDHasher.Generate -> argon2.IDKey", p.Method("/store", "Argon2IDHasher", "Generate"), "argon2.IDKey", 0, 1, nil},
		{"Argon2IDHasher.Check -> argon2.IDKey", p.Method("/store", "Argon2IDHasher", "Check"), "argon2.IDKey", 0, 1, nil},
		// Gen(pw) is salt + Hash(pw, salt) (link "scryptauth.Gen -> Hash" below): a Generate that draws the salt itself and
		// calls Hash hands the password to the same place, at the same operand position
		{"ScryptAuthHasher.Generate -> scryptauth.Gen", p.Method("/store", "ScryptAuthHasher", "Generate"), "scryptauth.v2.Context).Gen|scryptauth.v2.Context).Hash", 1, 1, nil},
		{"ScryptAuthHasher.Check -> scryptauth.Check", p.Method("/store", "ScryptAuthHasher", "Check"), "Context).Check", 2, 1, nil},
		{"scryptauth.Gen -> Hash", findMethodAny(p, sa, "Context", "Gen"), "Context).Hash", 1, 1, nil},
		{"scryptauth.Check -> Hash", findMethodAny(p, sa, "Context", "Check"), "Context).Hash", 1, 2, nil},
		{"scryptauth.Hash -> scrypt.Key", findMethodAny(p, sa, "Context", "Hash"), "scrypt.Key", 0, 1, nil},
	}
	for _, l := range links {
		if !need(c, "C01.1", l.fn, l.name) {
			continue
		}
		n := 0
		var bad []string
		for _, in := range an.DeepInstrs(l.fn) {
			{
				ci, ok := in.(ssa.CallInstruction)
				if !ok {
					continue
				}
				match := false
				for _, alt := range strings.Split(l.callee, "|") {
					match = match || strings.HasSuffix(an.CalleeName(ci), alt)
				}
				if !match {
					continue
				}
				an.EnumPaths(l.fn, nil, in, func(s *an.PathState) {
					n++
					args := s.CallArgs(ci)
					if l.argPos >= len(args) {
						bad = append(bad, "callee has no operand "+fmt.Sprint(l.argPos))
						return
					}
					got := args[l.argPos].StripConv()
					want := s.T(l.fn.Params[l.paramIdx])
					if got.K != want.K {
						bad = append(bad, fmt.Sprintf("password operand is %s, not the parameter %s itself", args[l.argPos].K, want.K))
					} else if args[l.argPos].Op == "conv" {
						// []byte(password) is a temporary copy: it still holds the password only if nothing wrote it before this call
						for _, e := range s.Events {
							if w := bufWrite(p, e, args[l.argPos]); w != "" {
								bad = append(bad, "the []byte copy of the password is written before it reaches the callee ("+w+")")
							}
						}
					}
					if l.extra != nil {
						bad = append(bad, l.extra(s, args)...)
					}
				})
			}
		}
		c.Check(len(bad) == 0 && n > 0, "C01.1", "link="+l.name, p.Pos(l.fn.Pos()), fmt.Sprintf("password passed unchanged (up to string→[]byte) on %d paths", n), strings.Join(uniqS(bad), "; "))
	}
	// C01.2-4 (+ C01.6): shared with C02.1
	sub := an.NewCtx("C01", c.Tier, c.Seed)
	sub.P = p
	c021(sub, p, "C01.2")
	for _, o := range sub.Obs {
		k := strings.TrimPrefix(o.Key, "C01.2|")
		if o.Status == "discharged" {
			c.OK("C01.2", k, o.Pos, o.Detail)
		} else {
			c.Fail("C01.2", k, o.Pos, o.Detail)
		}
	}
	c015(c, p)
	c018(c, p)
	// C01.7: the verdict must track the last *acknowledged* write: a write that reports failure must not have
	// replaced the record (shared with C15.6)
	{
		sub := an.NewCtx("C01", c.Tier, c.Seed)
		sub.P = p
		c156(sub, p, newFsx(p))
		c155(sub, p, newFsx(p)) // a failed add leaves no record (otherwise exists/list disagree with the history)
		for _, o := range sub.Obs {
			k := strings.TrimPrefix(strings.TrimPrefix(o.Key, "C15.6|"), "C15.5|")
			if o.Status == "discharged" {
				c.OK("C01.7", k, o.Pos, o.Detail)
			} else {
				c.Fail("C01.7", k, o.Pos, o.Detail)
			}
		}
	}
}

func c015(c *an.Ctx, p *an.Prog) {
	x := newFsx(p)
	// getFilename
	if gf := p.Method("/store", "UserHash", "getFilename"); need(c, "C01.5", gf, "store.(*UserHash).getFilename") {
		var bad []string
		n := 0
		an.EnumPaths(gf, nil, nil, func(s *an.PathState) {
			ret := lastReturn(s)
			if ret == nil {
				return
			}
			n++
			sh := x.shapeOf(s, ret.Args[0], 0)
			if sh.Kind != "user" || sh.User == nil || sh.User.K != "load(&p:u.user)" {
				bad = append(bad, "result is "+sh.String()+", not <base>/<u.user>.<ext>")
				return
			}
			flag := s.T(gf.Params[1])
			want := ".user"
			if s.IsTrue(flag) {
				want = ".admin"
			} else if !s.IsFalse(flag) {
				bad = append(bad, "extension does not depend on the admin flag")
			}
			if sh.Ext != want {
				bad = append(bad, fmt.Sprintf("admin=%v yields extension %s", s.IsTrue(flag), sh.Ext))
			}
		})
		c.Check(len(bad) == 0 && n == 2, "C01.5", fnKey(gf)+"|name", p.Pos(gf.Pos()), "Join(BaseDir, user)+\".admin\" iff isAdmin, else +\".user\"", strings.Join(uniqS(bad), "; "))
	}
	// Exists
	if ex := p.Method("/store", "UserHash", "Exists"); need(c, "C01.5", ex, "store.(*UserHash).Exists") {
		var bad []string
		nAdmin, nUser := 0, 0
		an.EnumPaths(ex, nil, nil, func(s *an.PathState) {
			ret := lastReturn(s)
			if ret == nil {
				return
			}
			if k, _ := exitKind(s); k == "error" {
				if !ret.Args[0].IsConst("false") {
					bad = append(bad, "an error return reports exists=true")
				}
				return
			}
			var fes []an.Event
			for _, e := range s.Events {
				if e.Kind == "call" && e.Callee == storePkg+".fileExists" {
					fes = append(fes, e)
				}
			}
			if len(fes) == 0 {
				bad = append(bad, "a non-error return without any file test (path "+s.BlockPath()+")")
				return
			}
			sh0 := x.shapeOf(s, fes[0].Args[0], 0)
			if sh0.Kind != "user" || sh0.Ext != ".admin" || sh0.User == nil || sh0.User.K != "load(&p:u.user)" {
				bad = append(bad, "the first file tested is "+sh0.String()+", not <user>.admin")
			}
			if ret.Args[1].IsConst("true") {
				nAdmin++
				if !(len(fes) == 1 && extractTrue(s, fes[0].Res, 0) && ret.Args[0].IsConst("true")) {
					bad = append(bad, "admin=true reported without <user>.admin having been found")
				}
				return
			}
			nUser++
			if !ret.Args[1].IsConst("false") {
				bad = append(bad, "admin flag is not a constant: "+ret.Args[1].K)
			}
			if len(fes) != 2 {
				bad = append(bad, "non-admin answer without testing <user>.user")
				return
			}
			sh1 := x.shapeOf(s, fes[1].Args[0], 0)
			if sh1.Kind != "user" || sh1.Ext != ".user" || sh1.User == nil || sh1.User.K != sh0.User.K {
				bad = append(bad, "the second file tested is "+sh1.String()+", not <user>.user of the same user")
			}
			if !extractFalse(s, fes[0].Res, 0) {
				bad = append(bad, "<user>.user consulted although <user>.admin was not known absent")
			}
			if ret.Args[0].K != extractOf(fes[1].Res, 0).K {
				bad = append(bad, "exists is not the result of testing <user>.user")
			}
		})
		c.Check(len(bad) == 0 && nAdmin > 0 && nUser > 0, "C01.5", fnKey(ex)+"|both-extensions", p.Pos(ex.Pos()), ".admin first (admin only for it), then .user of the same stem", strings.Join(uniqS(bad), "; "))
	}
	// Remove
	if rm := p.Method("/store", "UserHash", "Remove"); need(c, "C01.5", rm, "store.(*UserHash).Remove") {
		var bad []string
		n := 0
		an.EnumPaths(rm, nil, nil, func(s *an.PathState) {
			exts := map[string]bool{}
			for _, e := range s.Events {
				if e.Kind == "call" && e.Callee == "os.Remove" {
					sh := x.shapeOf(s, e.Args[0], 0)
					if sh.Kind != "user" || sh.User == nil || sh.User.K != "load(&p:u.user)" {
						bad = append(bad, "unlinks "+sh.String())
					}
					exts[sh.Ext] = true
				}
			}
			if len(exts) == 0 {
				// the invalid-name no-op path
				for _, a := range s.Atoms {
					if a.Op == "false" && a.A.IsCallTo("(*regexp.Regexp).MatchString") {
						return
					}
				}
				bad = append(bad, "a path removes nothing although the name is valid")
				return
			}
			n++
			if !exts[".admin"] || !exts[".user"] {
				bad = append(bad, "only one extension is unlinked: a stale file would keep the user alive")
			}
		})
		c.Check(len(bad) == 0 && n > 0, "C01.5", fnKey(rm)+"|both-extensions", p.Pos(rm.Pos()), "unlinks <user>.admin and <user>.user", strings.Join(uniqS(bad), "; "))
	}
	// fileExists
	if fe := p.Func("/store", "fileExists"); need(c, "C01.5", fe, "store.fileExists") {
		var bad []string
		n := 0
		an.EnumPaths(fe, nil, nil, func(s *an.PathState) {
			ret := lastReturn(s)
			if ret == nil {
				return
			}
			n++
			var st *an.Term
			for _, e := range s.Events {
				if e.Kind == "call" && (e.Callee == "os.Stat" || e.Callee == "os.Lstat") {
					st = e.Res
					if e.Args[0].K != s.T(fe.Params[0]).K {
						bad = append(bad, "stats something other than its parameter")
					}
				}
			}
			if st == nil {
				bad = append(bad, "no stat call")
				return
			}
			switch {
			case ret.Args[0].IsConst("false"):
				okNE := false
				for _, a := range s.Atoms {
					if a.Op == "true" && a.A.IsCallTo("os.IsNotExist") {
						okNE = true
					}
				}
				if !okNE || !ret.Args[1].IsConst("nil") {
					bad = append(bad, "'absent' reported without os.IsNotExist(err)")
				}
			case ret.Args[0].IsConst("true"):
				if ret.Args[1].IsConst("nil") && !extractNil(s, st, 1) {
					bad = append(bad, "'present' with nil error reported without Stat err==nil")
				}
			default:
				bad = append(bad, "result is not decided by the stat outcome")
			}
		})
		c.Check(len(bad) == 0 && n == 3, "C01.5", fnKey(fe)+"|tri-state", p.Pos(fe.Pos()), "present iff Stat ok; absent iff IsNotExist; otherwise an error", strings.Join(uniqS(bad), "; "))
	}
	// SetAdmin direction: shared with C16.3
	sub := an.NewCtx("C01", c.Tier, c.Seed)
	sub.P = p
	c163(sub, p, x)
	for _, o := range sub.Obs {
		if strings.Contains(o.Key, "rename-guard") {
			if o.Status == "discharged" {
				c.OK("C01.5", strings.TrimPrefix(o.Key, "C16.3|"), o.Pos, o.Detail)
			} else {
				c.Fail("C01.5", strings.TrimPrefix(o.Key, "C16.3|"), o.Pos, o.Detail)
			}
		}
	}
}

// c018 — the converse of C01.2 ("true only as the hasher's verdict"): C01 says a login succeeds *exactly* when the password
// is the one last written, so a refusal must come from the hasher too. On every path of UserHash.Authenticate the verdict
// is the first result of the parameter-set's Hasher.Check for this call, or the error result is known non-nil (the record
// could not be found, read or interpreted). A refusal with a nil error that was not computed from the password (an early
// "cannot be valid" return) makes a successfully written password unusable.
// The same for the two hashers' Check: a refusal without error is the outcome of the digest comparison (argon2id:
// under ConstantTimeCompare != 1; scrypt: the dependency's Check results handed on together). Value-level correctness of the
// comparison itself is not decided.
func c018(c *an.Ctx, p *an.Prog) {
	fn := p.Method("/store", "UserHash", "Authenticate")
	if !need(c, "C01.8", fn, "store.(*UserHash).Authenticate") {
		return
	}
	var bad []string
	n, nCheck := 0, 0
	er := an.EnumPaths(fn, nil, nil, func(s *an.PathState) {
		ret := lastReturn(s)
		if ret == nil || len(ret.Args) < 2 {
			return
		}
		n++
		v, e := ret.Args[0], ret.Args[len(ret.Args)-1]
		if ck, i := v.CallOf(); ck != nil && i == 0 && strings.HasSuffix(ck.Aux, storePkg+".Hasher.Check") {
			nCheck++
			return
		}
		if s.NonNil(e) {
			return
		}
		bad = append(bad, "verdict "+v.K+" is returned without an error (error result "+e.K+" not known non-nil) and is not Hasher.Check's result (path "+s.BlockPath()+")")
	})
	if !er.Complete {
		bad = append(bad, "path limit")
	}
	c.Check(len(bad) == 0 && n > 0 && nCheck > 0, "C01.8", fnKey(fn)+"|refusal-provenance", p.Pos(fn.Pos()), fmt.Sprintf("%d paths: the verdict is Hasher.Check's first result, or an error is reported", n), strings.Join(uniqS(bad), "; "))
	// the module's own hashers: a refusal without error is the digest comparison's (argon2id) or the dependency's (scrypt)
	for _, h := range []string{"Argon2IDHasher", "ScryptAuthHasher"} {
		ck := p.Method("/store", h, "Check")
		if !need(c, "C01.8", ck, "store.(*"+h+").Check") {
			continue
		}
		var bad []string
		n := 0
		er := an.EnumPaths(ck, nil, nil, func(s *an.PathState) {
			ret := lastReturn(s)
			if ret == nil || len(ret.Args) != 2 {
				return
			}
			n++
			v, e := ret.Args[0], ret.Args[1]
			if v.IsConst("true") || s.NonNil(e) {
				return // accepting side: C01.2 / C02.1
			}
			isCmp := func(t *an.Term) bool { return t != nil && t.IsCallTo("crypto/subtle.ConstantTimeCompare") }
			if v.IsConst("false") {
				for _, a := range s.Atoms {
					if (a.Op == "!=" && isCmp(a.A) && a.B.IsConst("1")) || (a.Op == "!=" && isCmp(a.B) && a.A.IsConst("1")) {
						return
					}
				}
			}
			if v.Op == "binop" && v.Aux == "==" && len(v.Args) == 2 && ((isCmp(v.Args[0]) && v.Args[1].IsConst("1")) || (isCmp(v.Args[1]) && v.Args[0].IsConst("1"))) {
				return
			}
			if dc, i := v.CallOf(); dc != nil && i == 0 && strings.HasSuffix(dc.Aux, "scryptauth.v2.Context).Check") {
				if ec, j := e.CallOf(); ec != nil && ec.K == dc.K && j == 1 {
					return // verdict and error of the dependency's Check, handed on together
				}
			}
			bad = append(bad, "verdict "+v.K+" without an error is neither the digest comparison's nor the dependency's (path "+s.BlockPath()+")")
		})
		if !er.Complete {
			bad = append(bad, "path limit")
		}
		c.Check(len(bad) == 0 && n > 0, "C01.8", fnKey(ck)+"|refusal-provenance", p.Pos(ck.Pos()), fmt.Sprintf("%d paths: a refusal without error is ConstantTimeCompare != 1 (or the dependency's verdict)", n), strings.Join(uniqS(bad), "; "))
	}
}
