package rules

import (
	"fmt"
	"go/ast"
	"sort"
	"strconv"
	"strings"

	"golang.org/x/tools/go/ssa"

	"verif/checker/internal/an"
)

// assertNoEscapeHatches checks the trusted-base assumption that module code has no unsafe,
// cgo, linkname or reflective calls that the call graph could miss.
func assertNoEscapeHatches(c *an.Ctx, p *an.Prog) {
	bad := []string{}
	for _, pk := range p.Pkgs {
		for _, f := range pk.Syntax {
			for _, im := range f.Imports {
				path, _ := strconv.Unquote(im.Path.Value)
				if path == "unsafe" || path == "C" || path == "reflect" || path == "plugin" {
					bad = append(bad, p.Pos(im.Pos())+" imports "+path)
				}
			}
			for _, cg := range f.Comments {
				for _, cm := range cg.List {
					if strings.HasPrefix(cm.Text, "//go:linkname") {
						bad = append(bad, p.Pos(cm.Pos())+" go:linkname")
					}
				}
			}
		}
	}
	if len(bad) > 0 {
		c.Undecided("base.escape", "module", "-", "module code uses constructs outside the analysed model: "+strings.Join(bad, "; "))
	} else {
		c.OK("base.escape", "module", "-", "no unsafe/cgo/reflect/plugin imports and no go:linkname in module code")
	}
}

// fnKey is the line-independent key part naming a function.
func fnKey(f *ssa.Function) string { return an.FnName(f) }

// need resolves an anchor function or records an UNRESOLVED obligation.
func need(c *an.Ctx, rule string, f *ssa.Function, what string) bool {
	if f == nil || len(f.Blocks) == 0 {
		c.Undecided(rule, "anchor:"+what, "-", "UNRESOLVED anchor: "+what+" not found in the current tree")
		return false
	}
	return true
}

// ordinal numbers call sites of the same callee inside one function so keys stay line-independent.
type ordinal struct{ m map[string]int }

func (o *ordinal) next(k string) string {
	if o.m == nil {
		o.m = map[string]int{}
	}
	o.m[k]++
	if o.m[k] == 1 {
		return k
	}
	return fmt.Sprintf("%s#%d", k, o.m[k])
}

// siteKey builds "function|callee[#n]".
func siteKey(f *ssa.Function, o *ordinal, what string) string {
	return fnKey(f) + "|" + o.next(fnKey(f)+"|"+what)[len(fnKey(f))+1:]
}

func sortedKeys[V any](m map[string]V) []string {
	var ks []string
	for k := range m {
		ks = append(ks, k)
	}
	sort.Strings(ks)
	return ks
}

// funcDecl returns the AST declaration of a module function.
func funcDecl(f *ssa.Function) *ast.FuncDecl {
	if d, ok := f.Syntax().(*ast.FuncDecl); ok {
		return d
	}
	return nil
}

// shortName strips the module prefix from a callee name.
func shortName(n string) string {
	n = strings.ReplaceAll(n, an.Module+"/cmd/whawty-auth", "main")
	return strings.ReplaceAll(n, an.Module+"/", "")
}

// Dump is a debugging aid: print every path to every call in a function with its facts.
func Dump(repo, spec string) int {
	p, err := an.Load(an.Config{Dir: repo})
	if err != nil {
		fmt.Println(err)
		return 2
	}
	parts := strings.SplitN(spec, ":", 2)
	var fn *ssa.Function
	for _, f := range p.RepoFns {
		if an.FnPkgPath(f) == an.Module+parts[0] && (f.Name() == parts[1] || strings.HasSuffix(f.String(), parts[1])) {
			fn = f
		}
	}
	if fn == nil {
		fmt.Println("not found")
		return 2
	}
	fn.WriteTo(os_stdout{})
	res := an.EnumPaths(fn, nil, nil, func(s *an.PathState) {
		fmt.Printf("PATH %s\n  facts: %s\n", s.BlockPath(), s.FactsString())
		for _, e := range s.Events {
			var as []string
			for _, a := range e.Args {
				as = append(as, a.String())
			}
			d := ""
			if e.Deferred {
				d = " (deferred)"
			}
			fmt.Printf("   %s %s(%s)%s\n", e.Kind, shortName(e.Callee), strings.Join(as, ", "), d)
		}
	})
	fmt.Printf("%+v\n", res)
	return 0
}

type os_stdout struct{}

func (os_stdout) Write(b []byte) (int, error) { fmt.Print(string(b)); return len(b), nil }
