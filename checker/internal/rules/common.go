package rules

import (
	"fmt"
	"go/ast"
	"go/types"
	"sort"
	"strconv"
	"strings"

	"golang.org/x/tools/go/ssa"

	"verif/checker/internal/an"
)

// assertNoEscapeHatches checks the trusted-base assumption that module code has no unsafe,
// cgo, linkname or reflective calls that the call graph could miss.
func assertNoEscapeHatches(c *an.Ctx, p *an.Prog) {
	bad := []string{}
	for _, pk := range p.Pkgs {
		for _, f := range pk.Syntax {
			for _, im := range f.Imports {
				path, _ := strconv.Unquote(im.Path.Value)
				if path == "unsafe" || path == "C" || path == "reflect" || path == "plugin" {
					bad = append(bad, p.Pos(im.Pos())+" imports "+path)
				}
			}
			for _, cg := range f.Comments {
				for _, cm := range cg.List {
					if strings.HasPrefix(cm.Text, "//go:linkname") {
						bad = append(bad, p.Pos(cm.Pos())+" go:linkname")
					}
				}
			}
		}
	}
	if len(bad) > 0 {
		c.Undecided("base.escape", "module", "-", "module code uses constructs outside the analysed model: "+strings.Join(bad, "; "))
	} else {
		c.OK("base.escape", "module", "-", "no unsafe/cgo/reflect/plugin imports and no go:linkname in module code")
	}
}

// fnKey is the line-independent key part naming a function.
func fnKey(f *ssa.Function) string { return an.FnName(f) }

// need resolves an anchor function or records an UNRESOLVED obligation.
func need(c *an.Ctx, rule string, f *ssa.Function, what string) bool {
	if f == nil || len(f.Blocks) == 0 {
		c.Undecided(rule, "anchor:"+what, "-", "UNRESOLVED anchor: "+what+" not found in the current tree")
		return false
	}
	return true
}

// ordinal numbers call sites of the same callee inside one function so keys stay line-independent.
type ordinal struct{ m map[string]int }

func (o *ordinal) next(k string) string {
	if o.m == nil {
		o.m = map[string]int{}
	}
	o.m[k]++
	if o.m[k] == 1 {
		return k
	}
	return fmt.Sprintf("%s#%d", k, o.m[k])
}

// siteKey builds "function|callee[#n]".
func siteKey(f *ssa.Function, o *ordinal, what string) string {
	return fnKey(f) + "|" + o.next(fnKey(f) + "|" + what)[len(fnKey(f))+1:]
}

func sortedKeys[V any](m map[string]V) []string {
	var ks []string
	for k := range m {
		ks = append(ks, k)
	}
	sort.Strings(ks)
	return ks
}

// funcDecl returns the AST declaration of a module function.
func funcDecl(f *ssa.Function) *ast.FuncDecl {
	if d, ok := f.Syntax().(*ast.FuncDecl); ok {
		return d
	}
	return nil
}

// shortName strips the module prefix from a callee name.
func shortName(n string) string {
	n = strings.ReplaceAll(n, an.Module+"/cmd/whawty-auth", "main")
	return strings.ReplaceAll(n, an.Module+"/", "")
}

// Dump is a debugging aid: print every path to every call in a function with its facts.
func Dump(repo, spec string) int {
	p, err := an.Load(an.Config{Dir: repo})
	if err != nil {
		fmt.Println(err)
		return 2
	}
	parts := strings.SplitN(spec, ":", 2)
	var fn *ssa.Function
	for _, f := range p.RepoFns {
		if an.FnPkgPath(f) == an.Module+parts[0] && (f.Name() == parts[1] || strings.HasSuffix(f.String(), parts[1])) {
			fn = f
		}
	}
	if fn == nil {
		fmt.Println("not found")
		return 2
	}
	fn.WriteTo(os_stdout{})
	res := an.EnumPaths(fn, nil, nil, func(s *an.PathState) {
		fmt.Printf("PATH %s\n  facts: %s\n", s.BlockPath(), s.FactsString())
		for k, v := range s.Resolved {
			fmt.Printf("   resolved %s = %s  shape=%s\n", k, v.K, newFsx(p).shapeOf(s, v, 0))
		}
		if len(s.Inlines) > 0 {
			fmt.Printf("   inlined %v\n", s.Inlines)
		}
		for _, e := range s.Events {
			var as []string
			for _, a := range e.Args {
				as = append(as, a.String())
			}
			d := ""
			if e.Deferred {
				d = " (deferred)"
			}
			fmt.Printf("   %s %s(%s)%s\n", e.Kind, shortName(e.Callee), strings.Join(as, ", "), d)
		}
	})
	fmt.Printf("%+v\n", res)
	for _, h := range loopHeaders(fn) {
		r2 := an.EnumPathsTo(fn, h, nil, h, func(s *an.PathState) {
			fmt.Printf("ITER(header %d) %s stop=%v\n  facts: %s\n", h.Index, s.BlockPath(), s.StopBlock != nil, s.FactsString())
			for _, e := range s.Events {
				var as []string
				for _, a := range e.Args {
					as = append(as, a.String())
				}
				fmt.Printf("   %s %s(%s)\n", e.Kind, shortName(e.Callee), strings.Join(as, ", "))
			}
			for _, in := range h.Instrs {
				if phi, ok := in.(*ssa.Phi); ok {
					if t := s.PhiIn(phi); t != nil {
						fmt.Printf("   next %s = %s\n", s.T(phi).K, t.K)
					}
				}
			}
		})
		fmt.Printf("iteration mode header %d: %+v\n", h.Index, r2)
	}
	return 0
}

type os_stdout struct{}

func (os_stdout) Write(b []byte) (int, error) { fmt.Print(string(b)); return len(b), nil }

// termField: the struct field a value is read from — x.f of a struct value, or the load of &x.f.
func termField(t *an.Term) string {
	t = t.StripConv()
	if t == nil {
		return ""
	}
	if t.Op == "field" {
		return t.Aux
	}
	if t.Op == "load" && len(t.Args) == 1 && t.Args[0] != nil && t.Args[0].Op == "fieldaddr" {
		return t.Args[0].Aux
	}
	return ""
}

// lookupOf: the map lookup a value comes from — m[k] itself or the value of v, ok := m[k].
func lookupOf(h *an.Term) *an.Term {
	if h == nil {
		return nil
	}
	if h.Op == "lookup" {
		return h
	}
	if h.Op == "extract" && h.Aux == "0" && len(h.Args) == 1 && h.Args[0].Op == "lookup" {
		return h.Args[0]
	}
	return nil
}

// ---- string composition, normalised ----

// strPart is a literal piece or a formatted operand of a composed string.
type strPart struct {
	Lit  string
	Arg  *an.Term
	Verb string // %s %d %t
}

// strParts decomposes a string-valued term built by fmt.Sprintf(constant format, …) or by "+" concatenation
// (with strconv.Itoa/FormatInt(…,10)/FormatUint(…,10)/FormatBool operands) into literal and operand parts.
func strParts(t *an.Term) ([]strPart, bool) {
	t = t.StripConv()
	if t == nil {
		return nil, false
	}
	if v, ok := t.ConstString(); ok {
		return []strPart{{Lit: v}}, true
	}
	if t.Op == "binop" && t.Aux == "+" {
		l, ok1 := strParts(t.Args[0])
		r, ok2 := strParts(t.Args[1])
		if !ok1 || !ok2 {
			return nil, false
		}
		return mergeLits(append(l, r...)), true
	}
	if c, _ := t.CallOf(); c != nil && t.Op == "call" {
		switch c.Aux {
		case "path/filepath.Join":
			// Join(a, b, …) composes a + "/" + b + …
			if len(c.Args) == 1 && c.Args[0].Op == "varargs" && len(c.Args[0].Args) > 0 {
				var out []strPart
				for i, e := range c.Args[0].Args {
					ps, ok := strParts(e)
					if !ok {
						return nil, false
					}
					if i > 0 {
						out = append(out, strPart{Lit: "/"})
					}
					out = append(out, ps...)
				}
				return mergeLits(out), true
			}
		case "strings.Join":
			// Join([]string{a, b, …}, sep)
			if len(c.Args) == 2 && c.Args[0].Op == "varargs" && len(c.Args[0].Args) > 0 {
				if sep, ok := c.Args[1].ConstString(); ok {
					var out []strPart
					for i, e := range c.Args[0].Args {
						ps, ok := strParts(e)
						if !ok {
							return nil, false
						}
						if i > 0 && sep != "" {
							out = append(out, strPart{Lit: sep})
						}
						out = append(out, ps...)
					}
					return mergeLits(out), true
				}
			}
		case "fmt.Sprintf":
			return fmtParts(c.Args[0], c.Args[1])
		case "strconv.Itoa":
			return []strPart{{Arg: stripNum(c.Args[0]), Verb: "%d"}}, true
		case "strconv.FormatInt", "strconv.FormatUint":
			if len(c.Args) == 2 && c.Args[1].IsConst("10") {
				return []strPart{{Arg: stripNum(c.Args[0]), Verb: "%d"}}, true
			}
		case "strconv.FormatBool":
			return []strPart{{Arg: c.Args[0], Verb: "%t"}}, true
		}
	}
	return []strPart{{Arg: t, Verb: "%s"}}, true
}

func fmtParts(format, va *an.Term) ([]strPart, bool) {
	f, ok := format.ConstString()
	if !ok || va == nil {
		return nil, false
	}
	var args []*an.Term
	if va.Op == "varargs" {
		args = va.Args
	} else if !va.IsConst("nil") {
		return nil, false
	}
	var out []strPart
	lit := ""
	k := 0
	for i := 0; i < len(f); i++ {
		if f[i] != '%' {
			lit += string(f[i])
			continue
		}
		if i+1 >= len(f) {
			return nil, false
		}
		i++
		switch f[i] {
		case '%':
			lit += "%"
		case 's', 'd', 't', 'v':
			if k >= len(args) {
				return nil, false
			}
			if lit != "" {
				out = append(out, strPart{Lit: lit})
				lit = ""
			}
			verb := "%" + string(f[i])
			a := args[k]
			if verb == "%v" {
				verb = verbOfType(a)
			}
			if verb == "%d" {
				a = stripNum(a)
			}
			out = append(out, strPart{Arg: a, Verb: verb})
			k++
		default:
			return nil, false
		}
	}
	if lit != "" {
		out = append(out, strPart{Lit: lit})
	}
	if k != len(args) {
		return nil, false
	}
	return out, true
}

func verbOfType(a *an.Term) string {
	if a != nil && a.V != nil {
		if b, ok := a.V.Type().Underlying().(*types.Basic); ok {
			switch {
			case b.Info()&types.IsBoolean != 0:
				return "%t"
			case b.Info()&types.IsInteger != 0:
				return "%d"
			}
		}
	}
	return "%s"
}

func mergeLits(ps []strPart) []strPart {
	var out []strPart
	for _, p := range ps {
		if p.Arg == nil && len(out) > 0 && out[len(out)-1].Arg == nil {
			out[len(out)-1].Lit += p.Lit
			continue
		}
		out = append(out, p)
	}
	return out
}

// fmtArgs: t composes exactly the given format (verbs %s %d %t; integers also match %s-less forms); returns its operands.
func fmtArgs(t *an.Term, format string) ([]*an.Term, bool) {
	ps, ok := strParts(t)
	if !ok {
		return nil, false
	}
	return matchParts(ps, format)
}

func matchParts(ps []strPart, format string) ([]*an.Term, bool) {
	got := ""
	var args []*an.Term
	for _, p := range ps {
		if p.Arg == nil {
			got += strings.Replace(p.Lit, "%", "%%", -1)
		} else {
			got += p.Verb
			args = append(args, p.Arg)
		}
	}
	return args, got == format
}

// assumesEmptyComposed: the path assumes that a string composed around a non-empty literal (Sprintf with literal text
// in its format, "lit" + x) is the empty string — no execution takes such a path.
func assumesEmptyComposed(s *an.PathState) bool {
	for _, a := range s.Atoms {
		if a.Op != "==" || a.B == nil || !a.B.IsConst(`""`) || a.A == nil || a.A.Op == "const" {
			continue
		}
		if ps, ok := strParts(a.A); ok {
			for _, p := range ps {
				if p.Arg == nil && p.Lit != "" {
					return true
				}
			}
		}
	}
	return false
}

// writtenText: the text a write-like call puts on its destination: (destination, text parts).
func writtenText(callee string, args []*an.Term) (dst *an.Term, parts []strPart, ok bool) {
	switch callee {
	case "io.WriteString", "(*os.File).WriteString", "(*os.File).Write", "(*bufio.Writer).WriteString":
		if len(args) < 2 {
			return nil, nil, false
		}
		ps, ok := strParts(args[1])
		return args[0], ps, ok
	case "fmt.Fprintf":
		if len(args) < 3 {
			return nil, nil, false
		}
		ps, ok := fmtParts(args[1], args[2])
		return args[0], ps, ok
	}
	return nil, nil, false
}

func stripNum(t *an.Term) *an.Term {
	for t != nil && (t.Op == "numconv" || t.Op == "conv") && len(t.Args) == 1 {
		t = t.Args[0]
	}
	return t
}

// ---- splitting a string at a separator, normalised ----

// splitFld describes a term as field Idx of Base cut at Sep into at most N pieces (the last piece is the rest).
type splitFld struct {
	Base *an.Term
	Sep  string
	Idx  int
	N    int
	// present: the facts of the path establish that the field exists (N pieces were found)
	Present bool
}

func sepOf(t *an.Term) (string, bool) {
	if v, ok := t.ConstString(); ok {
		return v, true
	}
	if v, ok := t.ConstInt(); ok && v > 0 && v < 128 {
		return string(rune(v)), true
	}
	return "", false
}

// splitField recognises strings.SplitN(x, sep, n)[i], the results of (nested) strings.Cut, and the
// strings.Index/IndexByte + slice idiom.
func splitField(s *an.PathState, t *an.Term) (splitFld, bool) {
	t = t.StripConv()
	if t == nil {
		return splitFld{}, false
	}
	// SplitN(x, sep, n)[i]
	if t.Op == "load" && t.Args[0].Op == "indexaddr" {
		ia := t.Args[0]
		if sp, _ := ia.Args[0].CallOf(); sp != nil && ia.Args[0].Op == "call" && sp.Aux == "strings.Split" {
			// Split(x, sep)[i] under len(parts) == n: field i of exactly n pieces
			i, ok1 := ia.Args[1].ConstInt()
			sep, ok3 := sepOf(sp.Args[1])
			if ok1 && ok3 {
				for _, a := range s.Atoms {
					if a.Op == "==" && a.B != nil && a.A.IsCallTo("builtin len") {
						if lc, _ := a.A.CallOf(); lc.Args[0].K == sp.K {
							if n, ok := a.B.ConstInt(); ok && i < n {
								return splitFld{Base: sp.Args[0].StripConv(), Sep: sep, Idx: int(i), N: int(n), Present: true}, true
							}
						}
					}
				}
			}
		}
		if sp, _ := ia.Args[0].CallOf(); sp != nil && ia.Args[0].Op == "call" && sp.Aux == "strings.SplitN" {
			i, ok1 := ia.Args[1].ConstInt()
			n, ok2 := sp.Args[2].ConstInt()
			sep, ok3 := sepOf(sp.Args[1])
			if ok1 && ok2 && ok3 && n > 0 && i < n {
				f := splitFld{Base: sp.Args[0].StripConv(), Sep: sep, Idx: int(i), N: int(n)}
				for _, a := range s.Atoms {
					if a.Op == "==" && a.B != nil && a.B.IsConst(fmt.Sprint(n)) && a.A.IsCallTo("builtin len") {
						if lc, _ := a.A.CallOf(); lc.Args[0].K == sp.K {
							f.Present = true
						}
					}
				}
				return f, true
			}
		}
	}
	// Cut(y, sep)#j
	if t.Op == "extract" {
		if ct, j := t.CallOf(); ct != nil && ct.Aux == "strings.Cut" && (j == 0 || j == 1) {
			sep, ok := sepOf(ct.Args[1])
			if !ok {
				return splitFld{}, false
			}
			found := extractTrue(s, ct, 2)
			y := ct.Args[0].StripConv()
			if pf, ok := splitField(s, y); ok && pf.Sep == sep && pf.Idx == pf.N-1 {
				return splitFld{Base: pf.Base, Sep: sep, Idx: pf.Idx + j, N: pf.N + 1, Present: pf.Present && found}, true
			}
			return splitFld{Base: y, Sep: sep, Idx: j, N: 2, Present: found}, true
		}
	}
	// x[:i] / x[i+len(sep):] with i = strings.Index*(x, sep)
	if t.Op == "slice" && len(t.Args) == 4 && t.Args[3] == nil {
		x := t.Args[0].StripConv()
		idxCall := func(i *an.Term) (string, bool) {
			if i == nil || i.Op != "call" || (i.Aux != "strings.IndexByte" && i.Aux != "strings.Index" && i.Aux != "strings.IndexRune") || i.Args[0].StripConv().K != x.K {
				return "", false
			}
			return sepOf(i.Args[1])
		}
		if t.Args[1] == nil && t.Args[2] != nil {
			if sep, ok := idxCall(t.Args[2]); ok {
				return splitFld{Base: x, Sep: sep, Idx: 0, N: 2, Present: nonNegative(s, t.Args[2])}, true
			}
		}
		if t.Args[2] == nil && t.Args[1] != nil && t.Args[1].Op == "binop" && t.Args[1].Aux == "+" {
			if sep, ok := idxCall(t.Args[1].Args[0]); ok && t.Args[1].Args[1].IsConst(fmt.Sprint(len(sep))) {
				return splitFld{Base: x, Sep: sep, Idx: 1, N: 2, Present: nonNegative(s, t.Args[1].Args[0])}, true
			}
		}
	}
	// x itself, on a path where the separator was not found: the "before" part is the whole string
	for _, a := range s.Atoms {
		if a.B == nil || a.A.Op != "call" || a.A.Args[0] == nil || a.A.Args[0].StripConv().K != t.K {
			continue
		}
		switch a.A.Aux {
		case "strings.IndexByte", "strings.Index", "strings.IndexRune":
			if (a.Op == "<" && a.B.IsConst("0")) || (a.Op == "==" && a.B.IsConst("-1")) || (a.Op == "<=" && a.B.IsConst("-1")) {
				if sep, ok := sepOf(a.A.Args[1]); ok {
					return splitFld{Base: t, Sep: sep, Idx: 0, N: 2}, true
				}
			}
		}
	}
	return splitFld{}, false
}

func nonNegative(s *an.PathState, t *an.Term) bool {
	for _, a := range s.Atoms {
		if a.B == nil || a.A.K != t.K {
			continue
		}
		if (a.Op == ">=" && a.B.IsConst("0")) || (a.Op == ">" && a.B.IsConst("-1")) || (a.Op == "!=" && a.B.IsConst("-1")) {
			return true
		}
	}
	return false
}

func (f splitFld) is(base *an.Term, sep string, idx, n int) bool {
	if f.Base == nil || base == nil || f.Base.K != base.K || f.Sep != sep || f.Idx != idx {
		return false
	}
	// a piece in front of the rest is the same piece whatever the number of pieces asked for
	return f.N == n || (idx < f.N-1 && idx < n-1)
}

// ---- contents of a locally built slice, normalised ----

// sliceElems returns the elements of a slice value built on this path: a composite literal, a make([]T, n) filled
// through indexed stores, or append(...) chains on one of those. ok is false when the shape is not recognised.
func sliceElems(s *an.PathState, t *an.Term) ([]*an.Term, bool) {
	t = t.StripConv()
	if t == nil {
		return nil, false
	}
	switch {
	case t.Op == "varargs":
		return append([]*an.Term(nil), t.Args...), true
	case t.Op == "make" && t.Aux == "slice":
		n, ok := t.Args[0].ConstInt()
		if !ok || n < 0 || n > 64 {
			return nil, false
		}
		out := make([]*an.Term, n)
		for _, e := range s.Events {
			if e.Kind == "store" && e.Args[0].Op == "indexaddr" && e.Args[0].Args[0].K == t.K {
				if i, ok := e.Args[0].Args[1].ConstInt(); ok && i >= 0 && i < n {
					out[i] = e.Args[1]
				} else {
					return nil, false
				}
			}
		}
		return out, true
	case t.Op == "slice" && len(t.Args) == 4 && t.Args[1] == nil && t.Args[2] == nil && t.Args[3] == nil && t.Args[0] != nil && t.Args[0].Op == "alloc":
		// arr[:] of a local array filled cell by cell
		al := t.Args[0]
		n := int64(-1)
		if al.V != nil {
			if pt, ok := al.V.Type().Underlying().(*types.Pointer); ok {
				if at, ok := pt.Elem().Underlying().(*types.Array); ok {
					n = at.Len()
				}
			}
		}
		if n < 0 || n > 64 {
			return nil, false
		}
		out := make([]*an.Term, n)
		for _, e := range s.Events {
			if e.Kind == "store" && e.Args[0].Op == "indexaddr" && e.Args[0].Args[0].K == al.K {
				if i, ok := e.Args[0].Args[1].ConstInt(); ok && i >= 0 && i < n {
					out[i] = e.Args[1]
				} else {
					return nil, false
				}
			}
		}
		return out, true
	case t.Op == "call" && t.Aux == "builtin append" && len(t.Args) == 2:
		base, ok := sliceElems(s, t.Args[0])
		if !ok {
			return nil, false
		}
		add := t.Args[1].StripConv()
		if add.Op != "varargs" {
			return nil, false
		}
		return append(base, add.Args...), true
	}
	return nil, false
}

// lowZero: a slice expression without lower bound (x[:n] and x[0:n] are the same term).
func lowZero(t *an.Term) bool {
	return t != nil && t.Op == "slice" && len(t.Args) == 4 && (t.Args[1] == nil || t.Args[1].IsConst("0"))
}

// selfStore: *a = *a — the value stored is the one just read from the same place (a helper such as
// positiveOr(v, current) on the branch that keeps the current value).
func selfStore(e an.Event) bool {
	if e.Kind != "store" || len(e.Args) != 2 || e.Args[1] == nil {
		return false
	}
	v := e.Args[1].StripConv()
	return v.Op == "load" && len(v.Args) == 1 && v.Args[0] != nil && v.Args[0].K == e.Args[0].K
}

// cloneSrc: t is a private copy of x made by one expression with the same content — append([]byte(nil), x...),
// append([]byte{}, x...), bytes.Clone(x), slices.Clone(x) — returns x (nil otherwise).
func cloneSrc(t *an.Term) *an.Term {
	cc, i := t.CallOf()
	if cc == nil || i != -1 {
		return nil
	}
	switch cc.Aux {
	case "builtin append":
		if len(cc.Args) == 2 && (cc.Args[0].IsConst("nil") || cc.Args[0].Op == "make" && len(cc.Args[0].Args) > 0 && cc.Args[0].Args[0].IsConst("0")) {
			return cc.Args[1]
		}
	case "bytes.Clone", "slices.Clone":
		if len(cc.Args) == 1 {
			return cc.Args[0]
		}
	}
	return nil
}

// stripClone sees through the idioms that make a private copy of a byte slice with the same content in one
// expression (cloneSrc). The two-statement idiom make+copy needs the path: copyOrigin.
func stripClone(t *an.Term) *an.Term {
	for t != nil {
		x := cloneSrc(t)
		if x == nil {
			return t
		}
		t = x
	}
	return t
}

// sameBuf: two terms denote the same piece of memory. Terms are values; for most buffer-producing terms (make,
// alloc, call results) the key identifies the instruction and with it the buffer. A string→[]byte conversion
// is keyed by its operand, but every conversion instruction allocates a buffer of its own.
func sameBuf(a, b *an.Term) bool {
	if a == nil || b == nil || a.K != b.K {
		return false
	}
	if a.Op == "conv" && a.V != nil && b.V != nil && a.V != b.V {
		return false
	}
	return true
}

// rootedIn: t is buf or an element address / sub-slice of it (shares its memory).
func rootedIn(t, buf *an.Term) bool {
	for t != nil {
		if sameBuf(t, buf) {
			return true
		}
		if (t.Op == "slice" || t.Op == "indexaddr") && len(t.Args) > 0 {
			t = t.Args[0]
			continue
		}
		break
	}
	return false
}

// bufWrite describes how event e writes the memory of buf ("" if it does not): an element store, or a call whose
// callee writes the operand (writesArg: copy destination, clear, readers filling it, module functions inspected).
// A deferred call appears as a call event where it runs, its registration (kind "defer") writes nothing.
func bufWrite(p *an.Prog, e an.Event, buf *an.Term) string {
	switch e.Kind {
	case "store":
		if len(e.Args) == 2 && e.Args[0] != nil && e.Args[0].Op == "indexaddr" && rootedIn(e.Args[0], buf) {
			return "element store"
		}
	case "call":
		for i, a := range e.Args {
			if !rootedIn(a, buf) {
				continue
			}
			if w := writesArg(p, e, i); w != "" {
				return shortName(e.Callee) + " (" + w + ")"
			}
		}
	}
	return ""
}

// copyOrigin: buf is a private copy of another slice x holding the same bytes when event `before` runs. Either one
// expression (cloneSrc; the copy is taken where that call runs) or the two-statement idiom: buf = make([]byte, n)
// of this path, written exactly once before `before`, by copy(buf, x) with len(x) == n known (so the copy is
// neither short nor partial). Returns x and the index of the event that took the copy.
func copyOrigin(p *an.Prog, s *an.PathState, buf *an.Term, before int) (src *an.Term, at int, ok bool) {
	if buf == nil {
		return nil, -1, false
	}
	if x := cloneSrc(buf); x != nil {
		cc, _ := buf.CallOf()
		for i, e := range s.Events {
			if i < before && e.Kind == "call" && e.Res != nil && e.Res.K == cc.K {
				return x, i, true
			}
		}
		return x, before, true
	}
	if buf.Op != "make" || buf.Aux != "slice" || len(buf.Args) == 0 {
		return nil, -1, false
	}
	at = -1
	for i, e := range s.Events {
		if i >= before {
			break
		}
		if bufWrite(p, e, buf) == "" {
			continue
		}
		if at >= 0 || e.Kind != "call" || e.Callee != "builtin copy" || len(e.Args) != 2 || !sameBuf(e.Args[0], buf) {
			return nil, -1, false // a second write, or a write that is not a whole-buffer copy
		}
		at, src = i, e.Args[1]
	}
	if at < 0 {
		return nil, -1, false
	}
	n := buf.Args[0]
	same := false
	if lc, _ := n.CallOf(); lc != nil && lc.Aux == "builtin len" && len(lc.Args) == 1 && lc.Args[0].K == src.K {
		same = true // make([]byte, len(x))
	}
	for _, a := range s.Atoms {
		if a.Op == "==" && a.B != nil && a.A.IsCallTo("builtin len") && a.B.K == n.K {
			if lc, _ := a.A.CallOf(); lc != nil && len(lc.Args) == 1 && lc.Args[0].K == src.K {
				same = true // len(x) == n was tested
			}
		}
	}
	if !same {
		return nil, -1, false
	}
	return src, at, true
}

// stripWiden removes integer conversions that cannot change the value (the destination type holds every value
// of the source type: uint8→uint32, uint32→int64, int32→int64, …). Narrowing and sign-changing conversions stay.
func stripWiden(t *an.Term) *an.Term {
	for t != nil && t.Op == "numconv" && len(t.Args) == 1 {
		cv, ok := t.V.(*ssa.Convert)
		if !ok {
			break
		}
		from, ok1 := cv.X.Type().Underlying().(*types.Basic)
		to, ok2 := cv.Type().Underlying().(*types.Basic)
		if !ok1 || !ok2 || from.Info()&types.IsInteger == 0 || to.Info()&types.IsInteger == 0 {
			break
		}
		fb, tb := intBits(from), intBits(to)
		fu, tu := from.Info()&types.IsUnsigned != 0, to.Info()&types.IsUnsigned != 0
		if fb == 0 || tb == 0 {
			break
		}
		if !(fu == tu && tb >= fb || fu && !tu && tb > fb) {
			break
		}
		t = t.Args[0]
	}
	return t
}

// intBits: the width of a sized integer type; 0 for the platform-dependent ones (conversions from/to them stay).
func intBits(b *types.Basic) int {
	switch b.Kind() {
	case types.Int8, types.Uint8:
		return 8
	case types.Int16, types.Uint16:
		return 16
	case types.Int32, types.Uint32:
		return 32
	case types.Int64, types.Uint64:
		return 64
	}
	return 0 // int, uint, uintptr: platform dependent — not stripped
}

// plainExt: e is an extension in the sense of filepath.Ext — a dot followed by characters that are neither dots nor
// path separators. For such an e, "name ends in e" and "filepath.Ext(name) == e" are the same statement.
func plainExt(e string) bool {
	return len(e) >= 2 && e[0] == '.' && !strings.ContainsAny(e[1:], "./\\")
}

// nameExtFact: the atom says that the file name `name` has the extension ext, however the test is spelt:
// filepath.Ext(name) == ext, or — for a plain extension — strings.HasSuffix(name, ext) is true, or the "found" result of
// strings.CutSuffix(name, ext) is true.
func nameExtFact(a an.Atom) (name *an.Term, ext string, ok bool) {
	switch a.Op {
	case "==":
		x, y := a.A, a.B
		if y != nil && y.Op == "call" && y.Aux == "path/filepath.Ext" {
			x, y = y, x
		}
		if x != nil && y != nil && x.Op == "call" && x.Aux == "path/filepath.Ext" && len(x.Args) == 1 {
			if e, isC := y.ConstString(); isC {
				return x.Args[0], e, true
			}
		}
	case "true":
		cc, i := a.A.CallOf()
		if cc == nil || len(cc.Args) != 2 {
			return nil, "", false
		}
		e, isC := cc.Args[1].ConstString()
		if !isC || !plainExt(e) {
			return nil, "", false
		}
		if (cc.Aux == "strings.HasSuffix" && i < 0) || (cc.Aux == "strings.CutSuffix" && i == 1) {
			return cc.Args[0], e, true
		}
	}
	return nil, "", false
}

// nameMinusExt: t is `name` without its trailing extension ext: strings.TrimSuffix(name, ext), the first result of
// strings.CutSuffix(name, ext) (the same string by definition), or TrimSuffix(name, filepath.Ext(name)) — the caller
// knows that Ext(name) == ext on this path.
func nameMinusExt(t, name *an.Term, ext string) bool {
	cc, i := t.CallOf()
	if cc == nil || name == nil || len(cc.Args) != 2 || cc.Args[0].K != name.K {
		return false
	}
	if !(cc.Aux == "strings.TrimSuffix" && i < 0) && !(cc.Aux == "strings.CutSuffix" && i == 0) {
		return false
	}
	if e, isC := cc.Args[1].ConstString(); isC {
		return e == ext
	}
	ec := cc.Args[1]
	return ec.Op == "call" && ec.Aux == "path/filepath.Ext" && len(ec.Args) == 1 && ec.Args[0].K == name.K
}
