package rules

import (
	"fmt"
	"strings"

	"golang.org/x/tools/go/ssa"

	"verif/checker/internal/an"
)

func init() {
	register(&PropRules{
		ID:      "C19",
		Explain: "Update hooks — structural part: (C19.1) notify ⇔ success: every agent function that calls a store-library mutator (AddUser, UpdateUser, SetAdmin, RemoveUser) sends on hooks.Notify on every path where the mutation succeeded and on no path where it failed (remove: unconditionally, after the removal); (C19.2) the transition table of the hooks loop, per iteration path: timer case — run all hooks iff pending > 1, then pending = 0; notify case — run all hooks and Reset(rateLimit) iff pending == 0, then pending = pending+1; store case — only replaces the store path; pending has no other writer; (C19.3) eligibility: a hook is started only if the hooks directory is a directory and not world-writable and the entry is not dot-prefixed, is a regular file or symlink, and has an executable bit; the path is Join(dir, Clean(\"/\"+name)); (C19.4) process shape: exec.Command(path, \"update\") with env = os.Environ() + WHAWTY_AUTH_STORE=<store>, started but never waited for on the hooks goroutine, killed on a one-minute timer in its own goroutine; the store path is written only by the constructor and from the NewStore channel.",
		Undec:   []string{"timing: intervals, 'not earlier than', the rate-limit duration's effect", "real process behaviour (hanging, failing hooks)", "file-system races between the eligibility test and exec"},
		Run:     runC19,
		Floors:  map[string]int{"C19.1": 4, "C19.2": 4, "C19.3": 1, "C19.4": 3},
	})
}

var libMutators = map[string]bool{
	"(*" + storePkg + ".Dir).AddUser":    true,
	"(*" + storePkg + ".Dir).UpdateUser": true,
	"(*" + storePkg + ".Dir).SetAdmin":   true,
	"(*" + storePkg + ".Dir).RemoveUser": true,
}

func isNotifySend(e an.Event) bool {
	return e.Kind == "send" && e.Args[0].Op == "load" && e.Args[0].Args[0].Op == "fieldaddr" && e.Args[0].Args[0].Aux == "Notify"
}

func runC19(c *an.Ctx, p *an.Prog, thorough bool) {
	// ---- C19.1 ----
	for _, fn := range pkgFns(p, mainPkg) {
		for _, in := range an.DeepInstrs(fn) {
			{
				ci, ok := in.(ssa.CallInstruction)
				if !ok || !libMutators[an.CalleeName(ci)] {
					continue
				}
				var bad []string
				nOK, nFail := 0, 0
				hasErr := ci.Common().Signature().Results().Len() > 0
				an.EnumPaths(fn, nil, nil, func(s *an.PathState) {
					idx := indexOfInstr(s.Events, in)
					if idx < 0 {
						return
					}
					ev := s.Events[idx]
					nsend := 0
					for _, e := range s.Events[idx+1:] {
						if isNotifySend(e) {
							nsend++
						}
					}
					for _, e := range s.Events[:idx] {
						if isNotifySend(e) {
							bad = append(bad, "notification sent before the mutation")
						}
					}
					if !hasErr {
						nOK++
						if nsend != 1 {
							bad = append(bad, fmt.Sprintf("%d notifications after the removal (path %s)", nsend, s.BlockPath()))
						}
						return
					}
					// the error of the mutation is stored into result.err; facts are on that value
					errNil, errNonNil := s.IsNil(ev.Res), s.NonNil(ev.Res)
					switch {
					case errNil:
						nOK++
						if nsend != 1 {
							bad = append(bad, fmt.Sprintf("successful mutation followed by %d notifications (path %s)", nsend, s.BlockPath()))
						}
					case errNonNil:
						nFail++
						if nsend != 0 {
							bad = append(bad, "failed mutation still notifies the hooks (path "+s.BlockPath()+")")
						}
					default:
						if nsend != 0 {
							bad = append(bad, "notification not conditional on err==nil (path "+s.BlockPath()+")")
						} else {
							bad = append(bad, "a path after the mutation neither tests its error nor notifies (path "+s.BlockPath()+")")
						}
					}
				})
				want := nOK > 0 && (nFail > 0 || !hasErr)
				c.Check(len(bad) == 0 && want, "C19.1", fnKey(fn)+"|"+shortName(an.CalleeName(ci)), p.InstrPos(in), fmt.Sprintf("notify exactly once on the %d success paths, never on the %d failure paths", nOK, nFail), strings.Join(uniqS(bad), "; "))
			}
		}
	}
	// only hooks.run receives Notify; senders are the mutators only
	c192(c, p)
	c193(c, p)
	c194(c, p)
}

func c192(c *an.Ctx, p *an.Prog) {
	run := p.Method("/cmd/whawty-auth", "HooksCaller", "run")
	if !need(c, "C19.2", run, "main.(*HooksCaller).run") {
		return
	}
	// the loop whose select has the timer channel
	var hdr *ssa.BasicBlock
	for _, h := range loopHeaders(run) {
		for _, in := range h.Instrs {
			if sel, ok := in.(*ssa.Select); ok && len(sel.States) == 3 {
				hdr = h
			}
		}
	}
	if hdr == nil {
		c.Undecided("C19.2", fnKey(run)+"|loop", p.Pos(run.Pos()), "UNRESOLVED: no loop with a three-way select (timer, notify, store) in the hooks goroutine")
		return
	}
	type caseRes struct {
		n   int
		bad []string
	}
	res := map[string]*caseRes{"timer": {}, "notify": {}, "store": {}}
	pendingKey := ""
	an.EnumPathsTo(run, hdr, nil, hdr, func(s *an.PathState) {
		if s.StopBlock == nil {
			return
		}
		var sel *an.Term
		for _, e := range s.Events {
			if e.Kind == "select" {
				sel = e.Res
			}
		}
		idx := -1
		for _, a := range s.Atoms {
			if a.Op == "==" && a.A.Op == "extract" && sel != nil && a.A.Args[0].K == sel.K && a.A.Aux == "0" {
				if v, ok := a.B.ConstInt(); ok {
					idx = int(v)
				}
			}
		}
		if sel == nil || idx < 0 {
			return
		}
		ch := sel.Args[idx]
		kind := ""
		switch {
		case strings.Contains(ch.K, ".C)"):
			kind = "timer"
		case strings.Contains(ch.K, ".Notify)"):
			kind = "notify"
		case strings.Contains(ch.K, ".NewStore)"):
			kind = "store"
		default:
			return
		}
		r := res[kind]
		r.n++
		ran, reset := 0, 0
		var resetArg *an.Term
		var pendStore *an.Term
		var storeStore *an.Term
		for _, e := range s.Events {
			if e.Kind == "call" && e.Fn != nil && p.InRepo(e.Fn) && e.Callee != "(*"+mainPkg+".HooksCaller).runAllHooks" {
				r.bad = append(r.bad, "the loop calls "+shortName(e.Callee)+", whose effect on the notification queue / pending counter is outside the transition table")
			}
			if e.Kind == "recv" || (e.Kind == "select" && e.Res != sel) {
				r.bad = append(r.bad, "a second channel operation inside one loop iteration")
			}
			if e.Kind == "call" && e.Callee == "(*"+mainPkg+".HooksCaller).runAllHooks" {
				ran++
			}
			if e.Kind == "call" && e.Callee == "(*time.Timer).Reset" {
				reset++
				resetArg = e.Args[1]
			}
			if e.Kind == "store" && e.Args[0].Op == "fieldaddr" {
				switch e.Args[0].Aux {
				case "pending":
					pendStore = e.Args[1]
					pendingKey = e.Args[0].K
				case "store":
					storeStore = e.Args[1]
				default:
					r.bad = append(r.bad, "unexpected write to field "+e.Args[0].Aux)
				}
			}
		}
		// the guard on pending of this iteration
		pl := "load(&p:h.pending)"
		lo, hi := int64(-1<<63), int64(1<<63-1)
		for _, a := range s.Atoms {
			if a.B == nil || a.A.K != pl {
				continue
			}
			if v, ok := a.B.ConstInt(); ok {
				switch a.Op {
				case "==":
					lo, hi = v, v
				case ">":
					if v+1 > lo {
						lo = v + 1
					}
				case ">=":
					if v > lo {
						lo = v
					}
				case "<":
					if v-1 < hi {
						hi = v - 1
					}
				case "<=":
					if v < hi {
						hi = v
					}
				case "!=":
					if v == 0 && lo < 1 {
						lo = 1 // unsigned counter
					}
				}
			}
		}
		if lo < 0 {
			lo = 0 // pending is unsigned
		}
		switch kind {
		case "timer":
			switch {
			case lo >= 2:
				if ran != 1 {
					r.bad = append(r.bad, fmt.Sprintf("timer with pending >= 2 runs the hooks %d times", ran))
				}
			case hi <= 1:
				if ran != 0 {
					r.bad = append(r.bad, "timer with pending <= 1 runs the hooks (every change was already covered by the leading-edge run)")
				}
			default:
				r.bad = append(r.bad, fmt.Sprintf("timer path does not split pending at 2 (knows %d..%d)", lo, hi))
			}
			if pendStore == nil || !pendStore.IsConst("0") {
				r.bad = append(r.bad, "timer path does not reset pending to 0")
			}
			if reset != 0 {
				r.bad = append(r.bad, "timer path re-arms the timer")
			}
		case "notify":
			switch {
			case lo == 0 && hi == 0:
				if ran != 1 {
					r.bad = append(r.bad, fmt.Sprintf("first notification of an interval runs the hooks %d times", ran))
				}
				if reset != 1 || resetArg == nil || !strings.Contains(resetArg.K, "rateLimit") {
					r.bad = append(r.bad, "first notification of an interval does not arm the timer with rateLimit")
				}
			case lo >= 1:
				if ran != 0 || reset != 0 {
					r.bad = append(r.bad, "a later notification of the interval runs hooks / re-arms the timer")
				}
			default:
				r.bad = append(r.bad, fmt.Sprintf("notify path does not split pending at 0 (knows %d..%d)", lo, hi))
			}
			okCount := pendStore != nil && pendStore.Op == "binop" && pendStore.Aux == "+" && pendStore.Args[0].K == pl && pendStore.Args[1].IsConst("1")
			if pendStore != nil && lo == hi && pendStore.IsConst(fmt.Sprint(lo+1)) {
				okCount = true // pending is known to be lo on this path: storing the constant lo+1 counts the notification
			}
			if !okCount {
				got := "<none>"
				if pendStore != nil {
					got = pendStore.K
				}
				r.bad = append(r.bad, "notify path does not count the notification (pending = pending+1), got "+got)
			}
		case "store":
			if ran != 0 || reset != 0 || pendStore != nil {
				r.bad = append(r.bad, "store-path case touches hooks/timer/pending")
			}
			want := fmt.Sprintf("%s#%d", sel.K, 2+idx)
			if storeStore == nil || storeStore.K != want {
				r.bad = append(r.bad, "store path is not set to the received value")
			}
		}
	})
	for _, k := range []string{"timer", "notify", "store"} {
		r := res[k]
		min := 2
		if k == "store" {
			min = 1
		}
		c.Check(len(r.bad) == 0 && r.n >= min, "C19.2", fnKey(run)+"|case="+k, p.Pos(run.Pos()), fmt.Sprintf("%d iteration paths conform to the transition table", r.n), strings.Join(uniqS(r.bad), "; ")+fmt.Sprintf(" (%d paths)", r.n))
	}
	// every receive from the notification channel is a case of a loop select in run (none elsewhere may swallow one)
	{
		var badr []string
		nrecv := 0
		for _, o := range p.ChanOps() {
			if o.Kind != "recv" || !strings.Contains(o.Desc, "HooksCaller.Notify") {
				continue
			}
			nrecv++
			inRun := o.Fn == run
			if !inRun && an.Inlinable(o.Fn) {
				// a helper of the loop, interpreted inside it
				inRun = true
				for _, r := range an.InlineRoots(o.Fn) {
					if r != run {
						inRun = false
					}
				}
			}
			if !inRun || !o.InSelect || !o.Blocking {
				badr = append(badr, fmt.Sprintf("notification consumed in %s at %s outside the hooks loop's blocking select (it would never be counted in pending)", fnKey(o.Fn), p.InstrPos(o.In)))
			}
		}
		c.Check(len(badr) == 0 && nrecv >= 1, "C19.2", "notify|single-consumer", p.Pos(run.Pos()), fmt.Sprintf("%d receive sites of hooks.Notify, all cases of the loop selects in run", nrecv), strings.Join(uniqS(badr), "; "))
	}
	// writers of pending
	var bad []string
	n := 0
	ctor := p.Func("/cmd/whawty-auth", "NewHooksCaller")
	for _, fn := range pkgFns(p, mainPkg) {
		for _, in := range an.DeepInstrs(fn) {
			{
				if st, ok := in.(*ssa.Store); ok {
					if fa, ok := st.Addr.(*ssa.FieldAddr); ok && isNamed(fa.X.Type(), mainPkg, "HooksCaller") && fieldNameOf(fa) == "pending" {
						n++
						if fn != run && fn != ctor {
							bad = append(bad, "pending written in "+fnKey(fn)+" at "+p.InstrPos(in))
						}
						if fn == ctor {
							if k, ok := st.Val.(*ssa.Const); !ok || k.Int64() != 0 {
								bad = append(bad, "constructor does not start with pending = 0")
							}
						}
					}
				}
			}
		}
	}
	_ = pendingKey
	c.Check(len(bad) == 0 && n >= 2, "C19.2", "pending|writers", "-", fmt.Sprintf("%d writes of pending, all in the hooks loop or the constructor (=0)", n), strings.Join(bad, "; "))
	// the hooks goroutine is started exactly once by the constructor
	if ctor != nil {
		ngo := 0
		for _, gs := range p.GoSites() {
			for _, cal := range gs.Callees {
				if cal == run {
					ngo++
					if gs.Parent != ctor {
						bad = append(bad, "hooks loop started from "+fnKey(gs.Parent))
					}
				}
			}
		}
		c.Check(ngo == 1 && len(bad) == 0, "C19.2", "hooks-loop|started-once", p.Pos(ctor.Pos()), "one `go h.run()` in the constructor", fmt.Sprintf("%d go sites start the hooks loop; %s", ngo, strings.Join(bad, "; ")))
	}
}

func c193(c *an.Ctx, p *an.Prog) {
	rah := p.Method("/cmd/whawty-auth", "HooksCaller", "runAllHooks")
	if !need(c, "C19.3", rah, "main.(*HooksCaller).runAllHooks") {
		return
	}
	sites := an.CallsTo(rah, mainPkg+".runHook")
	if len(sites) == 0 {
		c.Undecided("C19.3", fnKey(rah)+"|runHook", p.Pos(rah.Pos()), "UNRESOLVED: runAllHooks does not call runHook")
		return
	}
	for _, ci := range sites {
		var bad []string
		n := 0
		an.EnumPaths(rah, nil, ci, func(s *an.PathState) {
			n++
			has := func(pred func(a an.Atom) bool) bool {
				for _, a := range s.Atoms {
					if pred(a) {
						return true
					}
				}
				return false
			}
			callName := func(t *an.Term) string {
				if cc, _ := t.CallOf(); cc != nil {
					return cc.Aux
				}
				return ""
			}
			// directory tests
			if !has(func(a an.Atom) bool { return a.Op == "true" && strings.HasSuffix(callName(a.A), "FileInfo.IsDir") }) {
				bad = append(bad, "hook started without the hooks path being a directory")
			}
			if !has(func(a an.Atom) bool {
				return a.Op == "==" && a.B != nil && a.B.IsConst("0") && a.A.Op == "binop" && a.A.Aux == "&" && a.A.Args[1].IsConst("2") && strings.HasSuffix(callName(a.A.Args[0]), "FileInfo.Mode")
			}) {
				bad = append(bad, "hook started without the world-writable test (mode&02 == 0) on the hooks directory")
			}
			// entry tests
			if !has(func(a an.Atom) bool {
				return a.Op == "false" && callName(a.A) == "strings.HasPrefix" && a.A.Args[1].IsConst(`"."`)
			}) {
				bad = append(bad, "hidden (dot-prefixed) entries are not skipped")
			}
			reg := has(func(a an.Atom) bool { return a.Op == "true" && strings.HasSuffix(callName(a.A), "FileMode).IsRegular") })
			sym := has(func(a an.Atom) bool {
				return a.Op == "!=" && a.B != nil && a.B.IsConst("0") && a.A.Op == "binop" && a.A.Aux == "&" && a.A.Args[1].IsConst("134217728")
			})
			if !reg && !sym {
				bad = append(bad, "entry is neither known regular nor a symlink on path "+s.BlockPath())
			}
			if !has(func(a an.Atom) bool {
				return a.Op == "!=" && a.B != nil && a.B.IsConst("0") && a.A.Op == "binop" && a.A.Aux == "&" && a.A.Args[1].IsConst("73")
			}) {
				bad = append(bad, "entry started without an executable bit (mode&0111 != 0)")
			}
			// path shape
			args := s.CallArgs(ci)
			jc, _ := args[0].CallOf()
			okPath := false
			if jc != nil && jc.Aux == "path/filepath.Join" && len(jc.Args) == 1 && jc.Args[0].Op == "varargs" && len(jc.Args[0].Args) == 2 {
				d, f := jc.Args[0].Args[0], jc.Args[0].Args[1]
				cc, _ := f.CallOf()
				if d.Op == "load" && d.Args[0].Aux == "dir" && cc != nil && cc.Aux == "path.Clean" && cc.Args[0].Op == "binop" && cc.Args[0].Aux == "+" && cc.Args[0].Args[0].IsConst(`"/"`) && strings.HasSuffix(callName(cc.Args[0].Args[1]), "FileInfo.Name") {
					okPath = true
				}
			}
			if !okPath {
				bad = append(bad, "hook path is not Join(h.dir, path.Clean(\"/\"+entry.Name())): "+args[0].K)
			}
			if !(args[1].Op == "load" && args[1].Args[0].Aux == "store") {
				bad = append(bad, "store argument is not h.store")
			}
		})
		c.Check(len(bad) == 0 && n >= 2, "C19.3", fnKey(rah)+"|eligibility", p.InstrPos(ci), fmt.Sprintf("%d paths to runHook, all under dir ∧ !world-writable ∧ !hidden ∧ (regular ∨ symlink) ∧ executable", n), strings.Join(uniqS(bad), "; "))
	}
}

func c194(c *an.Ctx, p *an.Prog) {
	rh := p.Func("/cmd/whawty-auth", "runHook")
	if !need(c, "C19.4", rh, "main.runHook") {
		return
	}
	var bad []string
	n := 0
	an.EnumPaths(rh, nil, nil, func(s *an.PathState) {
		n++
		var cmd *an.Term
		started := false
		for _, e := range s.Events {
			switch {
			case e.Kind == "call" && e.Callee == "os/exec.Command":
				cmd = e.Res
				if e.Args[0].K != s.T(rh.Params[0]).K {
					bad = append(bad, "executed path is not the function's parameter")
				}
				if !(e.Args[1].Op == "varargs" && len(e.Args[1].Args) == 1 && e.Args[1].Args[0].IsConst(`"update"`)) {
					bad = append(bad, "hook arguments are not exactly [\"update\"]")
				}
			case e.Kind == "call" && e.Callee == "(*os/exec.Cmd).Start":
				started = true
			case e.Kind == "call" && (e.Callee == "(*os/exec.Cmd).Wait" || e.Callee == "(*os/exec.Cmd).Run" || e.Callee == "(*os/exec.Cmd).Output" || e.Callee == "(*os/exec.Cmd).CombinedOutput"):
				bad = append(bad, shortName(e.Callee)+" on the hooks goroutine: a hanging hook would stall all later notifications")
			case e.Kind == "store" && e.Args[0].Op == "fieldaddr" && e.Args[0].Aux == "Env":
				v := e.Args[1]
				okEnv := false
				if cc, _ := v.CallOf(); cc != nil && cc.Aux == "builtin append" && cc.Args[0].IsCallTo("os.Environ") {
					extra := cc.Args[1]
					if extra.Op == "varargs" && len(extra.Args) == 1 {
						if sp, _ := extra.Args[0].CallOf(); sp != nil && sp.Aux == "fmt.Sprintf" && sp.Args[0].IsConst(`"WHAWTY_AUTH_STORE=%s"`) && sp.Args[1].Op == "varargs" && sp.Args[1].Args[0].K == s.T(rh.Params[1]).K {
							okEnv = true
						}
					}
				}
				if !okEnv {
					bad = append(bad, "environment is not os.Environ() + WHAWTY_AUTH_STORE=<store>: "+v.K)
				}
			}
		}
		if cmd == nil || !started {
			bad = append(bad, "no exec.Command(...).Start() on path "+s.BlockPath())
		}
	})
	// Env must be set at all
	envSet := false
	for _, in := range an.DeepInstrs(rh) {
		{
			if st, ok := in.(*ssa.Store); ok {
				if fa, ok := st.Addr.(*ssa.FieldAddr); ok && fieldNameOf(fa) == "Env" {
					envSet = true
				}
			}
		}
	}
	if !envSet {
		bad = append(bad, "cmd.Env is never set")
	}
	c.Check(len(bad) == 0 && n > 0, "C19.4", fnKey(rh)+"|process-shape", p.Pos(rh.Pos()), "exec.Command(path, \"update\"), env = os.Environ()+WHAWTY_AUTH_STORE, Start only", strings.Join(uniqS(bad), "; "))
	// watchdog: a goroutine started after Start that kills on a one-minute timer and waits in a nested goroutine
	{
		var bad []string
		var wd *ssa.Function
		var wdSite *ssa.Go
		for _, gs := range p.GoSites() {
			if gs.Parent == rh && len(gs.Callees) == 1 {
				wd = gs.Callees[0]
				wdSite = gs.In
			}
		}
		if wd == nil {
			bad = append(bad, "no watchdog goroutine started by runHook")
		} else {
			kills, timer := false, false
			for _, in := range an.DeepInstrs(wd) {
				{
					if ci, ok := in.(ssa.CallInstruction); ok {
						switch an.CalleeName(ci) {
						case "(*os.Process).Kill":
							kills = true
						case "time.NewTimer", "time.After":
							lim := ci.Common().Args[0]
							if pr, ok := lim.(*ssa.Parameter); ok && pr.Parent() == wd && wdSite != nil && wdSite.Call.StaticCallee() == wd {
								// the limit is handed to the watchdog where it is started
								for i, q := range wd.Params {
									if q == pr && i < len(wdSite.Call.Args) {
										lim = wdSite.Call.Args[i]
									}
								}
							}
							if k, ok := lim.(*ssa.Const); ok && k.Value != nil && k.Int64() > 0 {
								timer = true // the limit's value (one minute today) is documentation, not part of the property
							}
						case "(*os/exec.Cmd).Wait":
							bad = append(bad, "the watchdog itself waits for the process (the timeout could never fire)")
						}
					}
				}
			}
			waited := false
			for _, gs := range p.GoSites() {
				if gs.Parent == wd {
					for _, cal := range gs.Callees {
						if len(an.CallsTo(cal, "(*os/exec.Cmd).Wait")) > 0 {
							waited = true
						}
					}
				}
			}
			if !kills {
				bad = append(bad, "watchdog never kills the process")
			}
			if !timer {
				bad = append(bad, "watchdog has no timer with a positive constant limit")
			}
			if !waited {
				bad = append(bad, "nobody waits for the hook process (zombies) or the wait is not in its own goroutine")
			}
		}
		c.Check(len(bad) == 0, "C19.4", fnKey(rh)+"|watchdog", p.Pos(rh.Pos()), "separate goroutine: Wait in a nested goroutine, Kill on a timer with a constant positive limit", strings.Join(bad, "; "))
	}
	// writers of HooksCaller.store
	{
		var bad []string
		n := 0
		run := p.Method("/cmd/whawty-auth", "HooksCaller", "run")
		ctor := p.Func("/cmd/whawty-auth", "NewHooksCaller")
		for _, fn := range pkgFns(p, mainPkg) {
			for _, in := range an.DeepInstrs(fn) {
				{
					if st, ok := in.(*ssa.Store); ok {
						if fa, ok := st.Addr.(*ssa.FieldAddr); ok && isNamed(fa.X.Type(), mainPkg, "HooksCaller") && (fieldNameOf(fa) == "store" || fieldNameOf(fa) == "dir") {
							n++
							if fn != run && fn != ctor {
								bad = append(bad, fieldNameOf(fa)+" written in "+fnKey(fn))
							}
						}
					}
				}
			}
		}
		// reload sends the new base dir after the swap
		if rl := p.Method("/cmd/whawty-auth", "store", "reload"); rl != nil {
			okSend := false
			an.EnumPaths(rl, nil, nil, func(s *an.PathState) {
				for i, e := range s.Events {
					if e.Kind == "send" && strings.Contains(e.Args[0].K, "NewStore") {
						// value: BaseDir of the new dir, sent after the store to s.dir
						swapped := false
						for _, e2 := range s.Events[:i] {
							if e2.Kind == "store" && e2.Args[0].Op == "fieldaddr" && e2.Args[0].Aux == "dir" {
								swapped = true
								if strings.Contains(e.Args[1].K, e2.Args[1].K) {
									okSend = true
								}
							}
						}
						if !swapped {
							bad = append(bad, "new store path sent before the configuration is swapped")
						}
					}
				}
			})
			if !okSend {
				bad = append(bad, "reload does not send the new base directory to the hooks goroutine")
			}
		}
		c.Check(len(bad) == 0 && n >= 2, "C19.4", "hooks-store-path|writers", "-", "store/dir of the hooks caller are written only by the constructor and the loop's store case; reload sends the new base directory after the swap", strings.Join(uniqS(bad), "; "))
	}
}
