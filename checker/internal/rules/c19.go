package rules

import (
	"fmt"
	"go/types"
	"strings"

	"golang.org/x/tools/go/ssa"

	"verif/checker/internal/an"
)

func init() {
	register(&PropRules{
		ID:      "C19",
		Explain: "Update hooks — structural part: (C19.1) notify ⇔ success: every agent function that calls a store-library mutator (AddUser, UpdateUser, SetAdmin, RemoveUser) sends on hooks.Notify on every path where the mutation succeeded and on no path where it failed (remove: unconditionally, after the removal); (C19.2) the transition table of the hooks loop, per iteration path: timer case — run all hooks iff pending > 1, then pending = 0; notify case — run all hooks and Reset(rateLimit) iff pending == 0, then pending = pending+1; store case — only replaces the store path; pending has no other writer; (C19.3) eligibility: a hook is started only if the hooks directory is a directory and not world-writable and the entry is not dot-prefixed, is a regular file or symlink, and has an executable bit; the path is Join(dir, Clean(\"/\"+name)); (C19.4) process shape: exec.Command(path, \"update\") with env = os.Environ() + WHAWTY_AUTH_STORE=<store>, started but never waited for on the hooks goroutine, killed on a one-minute timer in its own goroutine; the store path is written only by the constructor and from the NewStore channel.",
		Undec:   []string{"timing: intervals, 'not earlier than', the rate-limit duration's effect", "real process behaviour (hanging, failing hooks)", "file-system races between the eligibility test and exec"},
		Run:     runC19,
		Floors:  map[string]int{"C19.1": 4, "C19.2": 4, "C19.3": 1, "C19.4": 3},
	})
}

var libMutators = map[string]bool{
	"(*" + storePkg + ".Dir).AddUser":    true,
	"(*" + storePkg + ".Dir).UpdateUser": true,
	"(*" + storePkg + ".Dir).SetAdmin":   true,
	"(*" + storePkg + ".Dir).RemoveUser": true,
}

func isNotifySend(e an.Event) bool {
	return e.Kind == "send" && e.Args[0].Op == "load" && e.Args[0].Args[0].Op == "fieldaddr" && e.Args[0].Args[0].Aux == "Notify"
}

func runC19(c *an.Ctx, p *an.Prog, thorough bool) {
	// ---- C19.1 ----
	for _, fn := range pkgFns(p, mainPkg) {
		for _, in := range an.DeepInstrs(fn) {
			{
				ci, ok := in.(ssa.CallInstruction)
				if !ok || !libMutators[an.CalleeName(ci)] {
					continue
				}
				var bad []string
				nOK, nFail := 0, 0
				hasErr := ci.Common().Signature().Results().Len() > 0
				an.EnumPaths(fn, nil, nil, func(s *an.PathState) {
					idx := indexOfInstr(s.Events, in)
					if idx < 0 {
						return
					}
					ev := s.Events[idx]
					nsend := 0
					for _, e := range s.Events[idx+1:] {
						if isNotifySend(e) {
							nsend++
						}
					}
					for _, e := range s.Events[:idx] {
						if isNotifySend(e) {
							bad = append(bad, "notification sent before the mutation")
						}
					}
					if !hasErr {
						nOK++
						if nsend != 1 {
							bad = append(bad, fmt.Sprintf("%d notifications after the removal (path %s)", nsend, s.BlockPath()))
						}
						return
					}
					// the error of the mutation is stored into result.err; facts are on that value
					errNil, errNonNil := s.IsNil(ev.Res), s.NonNil(ev.Res)
					switch {
					case errNil:
						nOK++
						if nsend != 1 {
							bad = append(bad, fmt.Sprintf("successful mutation followed by %d notifications (path %s)", nsend, s.BlockPath()))
						}
					case errNonNil:
						nFail++
						if nsend != 0 {
							bad = append(bad, "failed mutation still notifies the hooks (path "+s.BlockPath()+")")
						}
					default:
						if nsend != 0 {
							bad = append(bad, "notification not conditional on err==nil (path "+s.BlockPath()+")")
						} else {
							bad = append(bad, "a path after the mutation neither tests its error nor notifies (path "+s.BlockPath()+")")
						}
					}
				})
				want := nOK > 0 && (nFail > 0 || !hasErr)
				c.Check(len(bad) == 0 && want, "C19.1", fnKey(fn)+"|"+shortName(an.CalleeName(ci)), p.InstrPos(in), fmt.Sprintf("notify exactly once on the %d success paths, never on the %d failure paths", nOK, nFail), strings.Join(uniqS(bad), "; "))
			}
		}
	}
	// only hooks.run receives Notify; senders are the mutators only
	c192(c, p)
	c193(c, p)
	c194(c, p)
}

// ---- what the hooks loop knows when it is first entered ----
//
// An iteration path is interpreted from the loop header with empty memory: a value computed before the loop shows up as
// latecall@…/late@… ("computed earlier, no identity on this path"), a field of an object built before the loop as a
// load of that field. hdrTerm translates such a term into the vocabulary of one path from the function's entry to the
// loop header (ps), reading cells from the memory of that moment. Every cell read that way is reported through `read`:
// what it held at the header is what it holds in every iteration only if nothing writes it afterwards (frozenCells).
func hdrTerm(ps *an.PathState, t *an.Term, read func(cell *an.Term)) *an.Term {
	if t == nil {
		return nil
	}
	switch t.Op {
	case "param", "const", "global", "fn":
		return t
	case "other":
		if t.V != nil && (strings.HasPrefix(t.K, "latecall@") || strings.HasPrefix(t.K, "late@")) {
			r := ps.T(t.V)
			if r == nil || strings.HasPrefix(r.K, "latecall@") || strings.HasPrefix(r.K, "late@") {
				return nil
			}
			return r
		}
	case "fieldaddr":
		if b := hdrTerm(ps, t.Args[0], read); b != nil {
			return &an.Term{K: "&" + b.K + "." + t.Aux, Op: "fieldaddr", Aux: t.Aux, Args: []*an.Term{b}, V: t.V}
		}
	case "load":
		if len(t.Args) == 1 {
			if a := hdrTerm(ps, t.Args[0], read); a != nil {
				if v := ps.MemKey(a.K); v != nil {
					if read != nil {
						read(a)
					}
					return v
				}
				return &an.Term{K: "load(" + a.K + ")", Op: "load", Args: []*an.Term{a}, V: t.V}
			}
		}
	}
	return nil
}

// definedBeforeLoop: the base of an address is the same object in every iteration (the receiver, or a value computed
// before the loop was entered).
func definedBeforeLoop(t *an.Term) bool {
	r := t.Root()
	for r != nil && r.Op == "load" && len(r.Args) == 1 {
		r = r.Args[0].Root()
	}
	return r != nil && (r.Op == "param" || (r.Op == "other" && (strings.HasPrefix(r.K, "latecall@") || strings.HasPrefix(r.K, "late@"))))
}

// fieldStores lists every store of module code that writes field idx of struct type st: stores through the field's
// address and stores of a whole value of the struct type.
func fieldStores(p *an.Prog, st types.Type, idx int) []*ssa.Store {
	var out []*ssa.Store
	for _, fn := range p.RepoFns {
		for _, b := range fn.Blocks {
			for _, in := range b.Instrs {
				s, ok := in.(*ssa.Store)
				if !ok {
					continue
				}
				if fa, ok := s.Addr.(*ssa.FieldAddr); ok && fa.Field == idx {
					if pt, ok := fa.X.Type().Underlying().(*types.Pointer); ok && types.Identical(pt.Elem(), st) {
						out = append(out, s)
					}
				}
				if types.Identical(s.Val.Type(), st) {
					out = append(out, s)
				}
			}
		}
	}
	return out
}

// fieldOfCell: the struct type and field index addressed by a fieldaddr term.
func fieldOfCell(cell *an.Term) (types.Type, int, bool) {
	fa, ok := cell.V.(*ssa.FieldAddr)
	if !ok {
		return nil, 0, false
	}
	pt, ok := fa.X.Type().Underlying().(*types.Pointer)
	if !ok {
		return nil, 0, false
	}
	return pt.Elem(), fa.Field, true
}

// inlinedOnlyInto: fn is root itself or a helper that is interpreted inside root and nowhere else.
func inlinedOnlyInto(fn, root *ssa.Function) bool {
	if fn == root {
		return true
	}
	if !an.Inlinable(fn) {
		return false
	}
	rs := an.InlineRoots(fn)
	return len(rs) == 1 && rs[0] == root
}

// thunkOf: closure term cl (a function literal or a bound method value) does, on every path, exactly one thing: call
// method `callee` on the captured value, which is bound to recv. Returns "" when that is so, else why not.
func thunkOf(cl *an.Term, callee string, recv *an.Term) string {
	mc, ok := cl.V.(*ssa.MakeClosure)
	if !ok || cl.Op != "closure" {
		return "not a closure: " + cl.K
	}
	f, _ := mc.Fn.(*ssa.Function)
	if f == nil || len(f.Blocks) == 0 {
		return "closure without a body"
	}
	why := ""
	n := 0
	er := an.EnumPaths(f, nil, nil, func(s *an.PathState) {
		n++
		calls := 0
		for _, e := range s.Events {
			switch e.Kind {
			case "return":
			case "call":
				if e.Callee != callee || len(e.Args) == 0 {
					why = shortName(f.String()) + " calls " + shortName(e.Callee)
					continue
				}
				calls++
				a := e.Args[0]
				if a.Op == "load" && len(a.Args) == 1 {
					a = a.Args[0] // a variable captured by reference
				}
				bound := false
				for i, fv := range f.FreeVars {
					if a.Op == "freevar" && a.Aux == fv.Name() && i < len(cl.Args) && cl.Args[i] != nil && cl.Args[i].K == recv.K {
						bound = true
					}
				}
				if !bound {
					why = shortName(f.String()) + " calls " + shortName(callee) + " on something other than " + recv.K
				}
			default:
				why = shortName(f.String()) + " does more than calling " + shortName(callee) + " (" + e.Kind + ")"
			}
		}
		if calls != 1 && why == "" {
			why = fmt.Sprintf("%s calls %s %d times on path %s", shortName(f.String()), shortName(callee), calls, s.BlockPath())
		}
	})
	if !er.Complete || n == 0 {
		return "cannot enumerate " + shortName(f.String())
	}
	return why
}

func c192(c *an.Ctx, p *an.Prog) {
	run := p.Method("/cmd/whawty-auth", "HooksCaller", "run")
	if !need(c, "C19.2", run, "main.(*HooksCaller).run") {
		return
	}
	ctor := p.Func("/cmd/whawty-auth", "NewHooksCaller")
	const runAll = "(*" + mainPkg + ".HooksCaller).runAllHooks"
	// the loop whose select has the timer channel
	var hdr *ssa.BasicBlock
	for _, h := range loopHeaders(run) {
		for _, in := range h.Instrs {
			if sel, ok := in.(*ssa.Select); ok && len(sel.States) == 3 {
				hdr = h
			}
		}
	}
	if hdr == nil {
		c.Undecided("C19.2", fnKey(run)+"|loop", p.Pos(run.Pos()), "UNRESOLVED: no loop with a three-way select (timer, notify, store) in the hooks goroutine")
		return
	}
	// what is known when the loop is first entered
	var pre []*an.PathState
	preRes := an.EnumPaths(run, nil, hdr.Instrs[0], func(s *an.PathState) { pre = append(pre, s) })
	var invBad []string
	if !preRes.Complete {
		invBad = append(invBad, "cannot enumerate the paths into the loop")
	}
	cells := map[string]*an.Term{} // cells whose value at the header the rule relies on
	// atHeader: the value t had when the loop was entered, the same on every path into the loop (nil if unknown)
	atHeader := func(t *an.Term) *an.Term {
		var out *an.Term
		for _, ps := range pre {
			v := hdrTerm(ps, t, func(cell *an.Term) { cells[cell.K] = cell })
			if v == nil || (out != nil && out.K != v.K) {
				return nil
			}
			out = v
		}
		return out
	}
	recvK := "p:" + run.Params[0].Name()
	recvT := &an.Term{K: recvK, Op: "param", Aux: run.Params[0].Name(), V: run.Params[0]}

	// ---- the iteration paths ----
	type iter struct {
		s    *an.PathState
		sel  *an.Term
		idx  int
		kind string
	}
	var its []iter
	an.EnumPathsTo(run, hdr, nil, hdr, func(s *an.PathState) {
		if s.StopBlock == nil {
			return
		}
		var sel *an.Term
		for _, e := range s.Events {
			if e.Kind == "select" && e.In != nil && e.In.Block() == hdr {
				sel = e.Res
			}
		}
		idx := -1
		for _, a := range s.Atoms {
			if a.Op == "==" && a.A.Op == "extract" && sel != nil && a.A.Args[0].K == sel.K && a.A.Aux == "0" {
				if v, ok := a.B.ConstInt(); ok {
					idx = int(v)
				}
			}
		}
		if sel == nil || idx < 0 || idx >= len(sel.Args) {
			return
		}
		ch := sel.Args[idx]
		kind := ""
		switch {
		case strings.Contains(ch.K, ".C)"):
			kind = "timer"
		case strings.Contains(ch.K, ".Notify)"):
			kind = "notify"
		case strings.Contains(ch.K, ".NewStore)"):
			kind = "store"
		default:
			return
		}
		its = append(its, iter{s, sel, idx, kind})
	})
	// the counter: the one field the timer and notify cases write. It is found by what happens to it — whatever it is
	// called and whichever object of the hooks goroutine holds it; every other field written there is reported below.
	var pcell *an.Term
	{
		cnt := map[string]int{}
		at := map[string]*an.Term{}
		for _, it := range its {
			if it.kind == "store" {
				continue
			}
			for _, e := range it.s.Events {
				if e.Kind == "store" && e.Args[0].Op == "fieldaddr" {
					cnt[e.Args[0].K]++
					at[e.Args[0].K] = e.Args[0]
				}
			}
		}
		for _, k := range sortedKeys(cnt) {
			if pcell == nil || cnt[k] > cnt[pcell.K] {
				pcell = at[k]
			}
		}
	}
	pl := "load(<no counter>)"
	if pcell != nil {
		pl = "load(" + pcell.K + ")"
	}
	type caseRes struct {
		n   int
		bad []string
	}
	res := map[string]*caseRes{"timer": {}, "notify": {}, "store": {}}
	iterStores := map[ssa.Instruction]bool{}
	for _, it := range its {
		s, sel, idx, kind := it.s, it.sel, it.idx, it.kind
		r := res[kind]
		r.n++
		ran, reset := 0, 0
		var resetArg, resetRecv *an.Term
		var pendStore *an.Term
		var storeStore *an.Term
		var timerCh *an.Term
		for _, a := range sel.Args {
			if strings.Contains(a.K, ".C)") {
				timerCh = a
			}
		}
		for _, e := range s.Events {
			if e.Kind == "call" && e.Fn != nil && p.InRepo(e.Fn) && e.Callee != runAll {
				r.bad = append(r.bad, "the loop calls "+shortName(e.Callee)+", whose effect on the notification queue / pending counter is outside the transition table")
			}
			if e.Kind == "call" && e.Fn == nil && e.FnVal == nil && strings.HasPrefix(e.Callee, "invoke ") && strings.Contains(e.Callee, an.Module) {
				r.bad = append(r.bad, "the loop calls "+shortName(e.Callee)+" through an interface: its effect is outside the transition table")
			}
			if e.Kind == "go" || e.Kind == "defer" || e.Kind == "send" {
				r.bad = append(r.bad, "a "+e.Kind+" inside one loop iteration")
			}
			if e.Kind == "recv" || (e.Kind == "select" && e.Res != sel) {
				r.bad = append(r.bad, "a second channel operation inside one loop iteration")
			}
			if e.Kind == "call" && e.Callee == runAll {
				ran++
				if len(e.Args) == 0 || e.Args[0].K != recvK {
					r.bad = append(r.bad, "the hooks of another caller are run")
				}
			}
			if e.Kind == "call" && e.FnVal != nil {
				// a call through a function value: it counts as "run all hooks" only if the value is shown to be
				// h.runAllHooks — held in a cell that is set before the loop and never written afterwards
				fv := e.FnVal
				if fv.Op != "closure" {
					fv = atHeader(e.FnVal)
				}
				why := "its value when the loop is entered is unknown"
				if fv != nil {
					why = thunkOf(fv, runAll, recvT)
				}
				if why == "" {
					ran++
				} else {
					r.bad = append(r.bad, "the loop calls the function value "+e.FnVal.K+", which is not shown to be "+recvK+".runAllHooks ("+why+")")
				}
			}
			if e.Kind == "call" && e.Callee == "(*time.Timer).Reset" {
				reset++
				resetRecv = e.Args[0]
				resetArg = e.Args[1]
			}
			if e.Kind == "store" {
				iterStores[e.In] = true
				a := e.Args[0]
				switch {
				case a.Op == "fieldaddr" && pcell != nil && a.K == pcell.K:
					pendStore = e.Args[1]
				case a.Op == "fieldaddr" && kind == "store" && a.K == "&"+recvK+".store":
					storeStore = e.Args[1]
				case a.Op == "fieldaddr":
					r.bad = append(r.bad, "unexpected write to field "+a.Aux)
				case a.Root() != nil && a.Root().Op == "alloc":
					// a local of this iteration
				default:
					r.bad = append(r.bad, "write through the pointer "+a.K)
				}
			}
		}
		// the guard on pending of this iteration
		lo, hi := int64(-1<<63), int64(1<<63-1)
		for _, a := range s.Atoms {
			if a.B == nil || a.A.K != pl {
				continue
			}
			if v, ok := a.B.ConstInt(); ok {
				switch a.Op {
				case "==":
					lo, hi = v, v
				case ">":
					if v+1 > lo {
						lo = v + 1
					}
				case ">=":
					if v > lo {
						lo = v
					}
				case "<":
					if v-1 < hi {
						hi = v - 1
					}
				case "<=":
					if v < hi {
						hi = v
					}
				case "!=":
					if v == 0 && lo < 1 {
						lo = 1 // unsigned counter
					}
				}
			}
		}
		if lo < 0 {
			lo = 0 // pending is unsigned
		}
		switch kind {
		case "timer":
			switch {
			case lo >= 2:
				if ran != 1 {
					r.bad = append(r.bad, fmt.Sprintf("timer with pending >= 2 runs the hooks %d times", ran))
				}
			case hi <= 1:
				if ran != 0 {
					r.bad = append(r.bad, "timer with pending <= 1 runs the hooks (every change was already covered by the leading-edge run)")
				}
			default:
				r.bad = append(r.bad, fmt.Sprintf("timer path does not split pending at 2 (knows %d..%d)", lo, hi))
			}
			if pendStore == nil || !pendStore.IsConst("0") {
				r.bad = append(r.bad, "timer path does not reset pending to 0")
			}
			if reset != 0 {
				r.bad = append(r.bad, "timer path re-arms the timer")
			}
		case "notify":
			switch {
			case lo == 0 && hi == 0:
				if ran != 1 {
					r.bad = append(r.bad, fmt.Sprintf("first notification of an interval runs the hooks %d times", ran))
				}
				okArm := reset == 1 && resetArg != nil
				if okArm && !strings.Contains(resetArg.K, "rateLimit") {
					// the interval may be kept in an object built before the loop
					if hv := atHeader(resetArg); hv == nil || !strings.Contains(hv.K, "rateLimit") {
						okArm = false
					}
				}
				if okArm && (timerCh == nil || timerCh.K != "load(&"+resetRecv.K+".C)") {
					okArm = false // another timer than the one the loop waits for
				}
				if !okArm {
					r.bad = append(r.bad, "first notification of an interval does not arm the timer with rateLimit")
				}
			case lo >= 1:
				if ran != 0 || reset != 0 {
					r.bad = append(r.bad, "a later notification of the interval runs hooks / re-arms the timer")
				}
			default:
				r.bad = append(r.bad, fmt.Sprintf("notify path does not split pending at 0 (knows %d..%d)", lo, hi))
			}
			okCount := pendStore != nil && pendStore.Op == "binop" && pendStore.Aux == "+" && pendStore.Args[0].K == pl && pendStore.Args[1].IsConst("1")
			if pendStore != nil && lo == hi && pendStore.IsConst(fmt.Sprint(lo+1)) {
				okCount = true // pending is known to be lo on this path: storing the constant lo+1 counts the notification
			}
			if !okCount {
				got := "<none>"
				if pendStore != nil {
					got = pendStore.K
				}
				r.bad = append(r.bad, "notify path does not count the notification (pending = pending+1), got "+got)
			}
		case "store":
			if ran != 0 || reset != 0 || pendStore != nil {
				r.bad = append(r.bad, "store-path case touches hooks/timer/pending")
			}
			want := fmt.Sprintf("%s#%d", sel.K, 2+idx)
			if storeStore == nil || storeStore.K != want {
				r.bad = append(r.bad, "store path is not set to the received value")
			}
		}
	}
	for _, k := range []string{"timer", "notify", "store"} {
		r := res[k]
		min := 2
		if k == "store" {
			min = 1
		}
		c.Check(len(r.bad) == 0 && r.n >= min, "C19.2", fnKey(run)+"|case="+k, p.Pos(run.Pos()), fmt.Sprintf("%d iteration paths conform to the transition table", r.n), strings.Join(uniqS(r.bad), "; ")+fmt.Sprintf(" (%d paths)", r.n))
	}
	// cells read at the loop header (the callback, the interval, the timer of a rate-limiter object): written only on
	// the way into the loop — by the hooks goroutine itself (run or a helper interpreted inside it and nowhere else) or
	// by the constructor — and never inside an iteration
	{
		for _, k := range sortedKeys(cells) {
			cell := cells[k]
			st, idx, ok := fieldOfCell(cell)
			if !ok {
				invBad = append(invBad, "cannot identify the field behind "+cell.K)
				continue
			}
			for _, w := range fieldStores(p, st, idx) {
				fn := w.Parent()
				if iterStores[w] {
					invBad = append(invBad, cell.Aux+" is written inside the loop at "+p.InstrPos(w)+": its value at loop entry says nothing about later iterations")
				}
				if !inlinedOnlyInto(fn, run) && fn != ctor {
					invBad = append(invBad, cell.Aux+" is written in "+fnKey(fn)+" at "+p.InstrPos(w)+", outside the hooks goroutine")
				}
			}
		}
		c.Check(len(invBad) == 0, "C19.2", fnKey(run)+"|loop-invariants", p.Pos(run.Pos()), fmt.Sprintf("%d cells read as of loop entry are written only before the loop, by the hooks goroutine or the constructor", len(cells)), strings.Join(uniqS(invBad), "; "))
	}
	// every receive from the notification channel is a case of a loop select in run (none elsewhere may swallow one)
	{
		var badr []string
		nrecv := 0
		for _, o := range p.ChanOps() {
			if o.Kind != "recv" || !strings.Contains(o.Desc, "HooksCaller.Notify") {
				continue
			}
			nrecv++
			inRun := o.Fn == run
			if !inRun && an.Inlinable(o.Fn) {
				// a helper of the loop, interpreted inside it
				inRun = true
				for _, r := range an.InlineRoots(o.Fn) {
					if r != run {
						inRun = false
					}
				}
			}
			if !inRun || !o.InSelect || !o.Blocking {
				badr = append(badr, fmt.Sprintf("notification consumed in %s at %s outside the hooks loop's blocking select (it would never be counted in pending)", fnKey(o.Fn), p.InstrPos(o.In)))
			}
		}
		c.Check(len(badr) == 0 && nrecv >= 1, "C19.2", "notify|single-consumer", p.Pos(run.Pos()), fmt.Sprintf("%d receive sites of hooks.Notify, all cases of the loop selects in run", nrecv), strings.Join(uniqS(badr), "; "))
	}
	// writers of pending, and its value when the loop is entered
	var bad []string
	n := 0
	if pcell == nil {
		bad = append(bad, "no counter: the timer and notify cases write no field")
	} else if st, idx, ok := fieldOfCell(pcell); !ok {
		bad = append(bad, "cannot identify the field behind "+pcell.K)
	} else {
		ownField := pcell.Args[0].K == recvK // the counter is a field of the HooksCaller itself
		for _, w := range fieldStores(p, st, idx) {
			fn := w.Parent()
			n++
			switch {
			case inlinedOnlyInto(fn, run):
			case fn == ctor && ownField:
				if k, ok := w.Val.(*ssa.Const); !ok || k.Value == nil || k.Int64() != 0 {
					bad = append(bad, "constructor does not start with pending = 0")
				}
			default:
				bad = append(bad, "pending written in "+fnKey(fn)+" at "+p.InstrPos(w))
			}
		}
		switch {
		case ownField:
			// built by the constructor (checked above), handed to the one `go h.run()` (checked below)
		case !definedBeforeLoop(pcell):
			bad = append(bad, "the counter "+pcell.K+" lives in an object made inside the iteration: nothing is counted from one notification to the next")
		default:
			// a field of an object the hooks goroutine builds on its way into the loop: zero at loop entry
			if len(pre) == 0 {
				bad = append(bad, "no path into the loop")
			}
			for _, ps := range pre {
				a := hdrTerm(ps, pcell, nil)
				switch {
				case a == nil:
					bad = append(bad, "cannot tell which object holds the counter "+pcell.K+" when the loop is entered")
				case ps.MemKey(a.K) != nil:
					if !ps.MemKey(a.K).IsConst("0") {
						bad = append(bad, "the counter starts as "+ps.MemKey(a.K).K+", not 0")
					}
				case !ps.Unclobbered(a):
					bad = append(bad, "the counter's value when the loop is entered is unknown ("+a.K+" is not a fresh object of the hooks goroutine, or has been handed out)")
				}
			}
		}
	}
	c.Check(len(bad) == 0 && n >= 2, "C19.2", "pending|writers", "-", fmt.Sprintf("%d writes of pending, all in the hooks loop or the constructor (=0); 0 when the loop is entered", n), strings.Join(uniqS(bad), "; "))
	// the hooks goroutine is started exactly once by the constructor
	if ctor != nil {
		ngo := 0
		for _, gs := range p.GoSites() {
			for _, cal := range gs.Callees {
				if cal == run {
					ngo++
					if gs.Parent != ctor {
						bad = append(bad, "hooks loop started from "+fnKey(gs.Parent))
					}
				}
			}
		}
		c.Check(ngo == 1 && len(bad) == 0, "C19.2", "hooks-loop|started-once", p.Pos(ctor.Pos()), "one `go h.run()` in the constructor", fmt.Sprintf("%d go sites start the hooks loop; %s", ngo, strings.Join(bad, "; ")))
	}
}

func c193(c *an.Ctx, p *an.Prog) {
	rah := p.Method("/cmd/whawty-auth", "HooksCaller", "runAllHooks")
	if !need(c, "C19.3", rah, "main.(*HooksCaller).runAllHooks") {
		return
	}
	sites := an.CallsTo(rah, mainPkg+".runHook")
	if len(sites) == 0 {
		c.Undecided("C19.3", fnKey(rah)+"|runHook", p.Pos(rah.Pos()), "UNRESOLVED: runAllHooks does not call runHook")
		return
	}
	for _, ci := range sites {
		var bad []string
		n := 0
		an.EnumPaths(rah, nil, ci, func(s *an.PathState) {
			n++
			has := func(pred func(a an.Atom) bool) bool {
				for _, a := range s.Atoms {
					if pred(a) {
						return true
					}
				}
				return false
			}
			callName := func(t *an.Term) string {
				if cc, _ := t.CallOf(); cc != nil {
					return cc.Aux
				}
				return ""
			}
			// directory tests
			if !has(func(a an.Atom) bool { return a.Op == "true" && strings.HasSuffix(callName(a.A), "FileInfo.IsDir") }) {
				bad = append(bad, "hook started without the hooks path being a directory")
			}
			if !has(func(a an.Atom) bool {
				return a.Op == "==" && a.B != nil && a.B.IsConst("0") && a.A.Op == "binop" && a.A.Aux == "&" && a.A.Args[1].IsConst("2") && strings.HasSuffix(callName(a.A.Args[0]), "FileInfo.Mode")
			}) {
				bad = append(bad, "hook started without the world-writable test (mode&02 == 0) on the hooks directory")
			}
			// entry tests
			if !has(func(a an.Atom) bool {
				return a.Op == "false" && callName(a.A) == "strings.HasPrefix" && a.A.Args[1].IsConst(`"."`)
			}) {
				bad = append(bad, "hidden (dot-prefixed) entries are not skipped")
			}
			reg := has(func(a an.Atom) bool { return a.Op == "true" && strings.HasSuffix(callName(a.A), "FileMode).IsRegular") })
			sym := has(func(a an.Atom) bool {
				return a.Op == "!=" && a.B != nil && a.B.IsConst("0") && a.A.Op == "binop" && a.A.Aux == "&" && a.A.Args[1].IsConst("134217728")
			})
			if !reg && !sym {
				bad = append(bad, "entry is neither known regular nor a symlink on path "+s.BlockPath())
			}
			if !has(func(a an.Atom) bool {
				return a.Op == "!=" && a.B != nil && a.B.IsConst("0") && a.A.Op == "binop" && a.A.Aux == "&" && a.A.Args[1].IsConst("73")
			}) {
				bad = append(bad, "entry started without an executable bit (mode&0111 != 0)")
			}
			// path shape
			args := s.CallArgs(ci)
			jc, _ := args[0].CallOf()
			okPath := false
			if jc != nil && jc.Aux == "path/filepath.Join" && len(jc.Args) == 1 && jc.Args[0].Op == "varargs" && len(jc.Args[0].Args) == 2 {
				d, f := jc.Args[0].Args[0], jc.Args[0].Args[1]
				cc, _ := f.CallOf()
				if d.Op == "load" && d.Args[0].Aux == "dir" && cc != nil && cc.Aux == "path.Clean" && cc.Args[0].Op == "binop" && cc.Args[0].Aux == "+" && cc.Args[0].Args[0].IsConst(`"/"`) && strings.HasSuffix(callName(cc.Args[0].Args[1]), "FileInfo.Name") {
					okPath = true
				}
			}
			if !okPath {
				bad = append(bad, "hook path is not Join(h.dir, path.Clean(\"/\"+entry.Name())): "+args[0].K)
			}
			if !(args[1].Op == "load" && args[1].Args[0].Aux == "store") {
				bad = append(bad, "store argument is not h.store")
			}
		})
		c.Check(len(bad) == 0 && n >= 2, "C19.3", fnKey(rah)+"|eligibility", p.InstrPos(ci), fmt.Sprintf("%d paths to runHook, all under dir ∧ !world-writable ∧ !hidden ∧ (regular ∨ symlink) ∧ executable", n), strings.Join(uniqS(bad), "; "))
	}
}

func c194(c *an.Ctx, p *an.Prog) {
	rh := p.Func("/cmd/whawty-auth", "runHook")
	if !need(c, "C19.4", rh, "main.runHook") {
		return
	}
	var bad []string
	n := 0
	an.EnumPaths(rh, nil, nil, func(s *an.PathState) {
		n++
		var cmd *an.Term
		started := false
		for _, e := range s.Events {
			switch {
			case e.Kind == "call" && e.Callee == "os/exec.Command":
				cmd = e.Res
				if e.Args[0].K != s.T(rh.Params[0]).K {
					bad = append(bad, "executed path is not the function's parameter")
				}
				if !(e.Args[1].Op == "varargs" && len(e.Args[1].Args) == 1 && e.Args[1].Args[0].IsConst(`"update"`)) {
					bad = append(bad, "hook arguments are not exactly [\"update\"]")
				}
			case e.Kind == "call" && e.Callee == "(*os/exec.Cmd).Start":
				started = true
			case e.Kind == "call" && (e.Callee == "(*os/exec.Cmd).Wait" || e.Callee == "(*os/exec.Cmd).Run" || e.Callee == "(*os/exec.Cmd).Output" || e.Callee == "(*os/exec.Cmd).CombinedOutput"):
				bad = append(bad, shortName(e.Callee)+" on the hooks goroutine: a hanging hook would stall all later notifications")
			case e.Kind == "store" && e.Args[0].Op == "fieldaddr" && e.Args[0].Aux == "Env":
				v := e.Args[1]
				okEnv := false
				if cc, _ := v.CallOf(); cc != nil && cc.Aux == "builtin append" && cc.Args[0].IsCallTo("os.Environ") {
					extra := cc.Args[1]
					if extra.Op == "varargs" && len(extra.Args) == 1 {
						// the one added entry composes "WHAWTY_AUTH_STORE=" + store, however it is spelled (Sprintf, +, Join)
						if as, ok := fmtArgs(extra.Args[0], "WHAWTY_AUTH_STORE=%s"); ok && len(as) == 1 && as[0].K == s.T(rh.Params[1]).K {
							okEnv = true
						}
					}
				}
				if !okEnv {
					bad = append(bad, "environment is not os.Environ() + WHAWTY_AUTH_STORE=<store>: "+v.K)
				}
			}
		}
		if cmd == nil || !started {
			bad = append(bad, "no exec.Command(...).Start() on path "+s.BlockPath())
		}
	})
	// Env must be set at all
	envSet := false
	for _, in := range an.DeepInstrs(rh) {
		{
			if st, ok := in.(*ssa.Store); ok {
				if fa, ok := st.Addr.(*ssa.FieldAddr); ok && fieldNameOf(fa) == "Env" {
					envSet = true
				}
			}
		}
	}
	if !envSet {
		bad = append(bad, "cmd.Env is never set")
	}
	c.Check(len(bad) == 0 && n > 0, "C19.4", fnKey(rh)+"|process-shape", p.Pos(rh.Pos()), "exec.Command(path, \"update\"), env = os.Environ()+WHAWTY_AUTH_STORE, Start only", strings.Join(uniqS(bad), "; "))
	// watchdog: a goroutine started after Start that kills on a one-minute timer and waits in a nested goroutine
	{
		var bad []string
		var wd *ssa.Function
		var wdSite *ssa.Go
		for _, gs := range p.GoSites() {
			if gs.Parent == rh && len(gs.Callees) == 1 {
				wd = gs.Callees[0]
				wdSite = gs.In
			}
		}
		if wd == nil {
			bad = append(bad, "no watchdog goroutine started by runHook")
		} else {
			kills, timer := false, false
			for _, in := range an.DeepInstrs(wd) {
				{
					if ci, ok := in.(ssa.CallInstruction); ok {
						switch an.CalleeName(ci) {
						case "(*os.Process).Kill":
							kills = true
						case "time.NewTimer", "time.After":
							lim := ci.Common().Args[0]
							if pr, ok := lim.(*ssa.Parameter); ok && pr.Parent() == wd && wdSite != nil && wdSite.Call.StaticCallee() == wd {
								// the limit is handed to the watchdog where it is started
								for i, q := range wd.Params {
									if q == pr && i < len(wdSite.Call.Args) {
										lim = wdSite.Call.Args[i]
									}
								}
							}
							if k, ok := lim.(*ssa.Const); ok && k.Value != nil && k.Int64() > 0 {
								timer = true // the limit's value (one minute today) is documentation, not part of the property
							}
						case "(*os/exec.Cmd).Wait":
							bad = append(bad, "the watchdog itself waits for the process (the timeout could never fire)")
						}
					}
				}
			}
			waited := false
			for _, gs := range p.GoSites() {
				if gs.Parent == wd {
					for _, cal := range gs.Callees {
						if len(an.CallsTo(cal, "(*os/exec.Cmd).Wait")) > 0 {
							waited = true
						}
					}
				}
			}
			if !kills {
				bad = append(bad, "watchdog never kills the process")
			}
			if !timer {
				bad = append(bad, "watchdog has no timer with a positive constant limit")
			}
			if !waited {
				bad = append(bad, "nobody waits for the hook process (zombies) or the wait is not in its own goroutine")
			}
		}
		c.Check(len(bad) == 0, "C19.4", fnKey(rh)+"|watchdog", p.Pos(rh.Pos()), "separate goroutine: Wait in a nested goroutine, Kill on a timer with a constant positive limit", strings.Join(bad, "; "))
	}
	// writers of HooksCaller.store
	{
		var bad []string
		n := 0
		run := p.Method("/cmd/whawty-auth", "HooksCaller", "run")
		ctor := p.Func("/cmd/whawty-auth", "NewHooksCaller")
		for _, fn := range pkgFns(p, mainPkg) {
			for _, in := range an.DeepInstrs(fn) {
				{
					if st, ok := in.(*ssa.Store); ok {
						if fa, ok := st.Addr.(*ssa.FieldAddr); ok && isNamed(fa.X.Type(), mainPkg, "HooksCaller") && (fieldNameOf(fa) == "store" || fieldNameOf(fa) == "dir") {
							n++
							if fn != run && fn != ctor {
								bad = append(bad, fieldNameOf(fa)+" written in "+fnKey(fn))
							}
						}
					}
				}
			}
		}
		// reload sends the new base dir after the swap
		if rl := p.Method("/cmd/whawty-auth", "store", "reload"); rl != nil {
			okSend := false
			an.EnumPaths(rl, nil, nil, func(s *an.PathState) {
				for i, e := range s.Events {
					if e.Kind == "send" && strings.Contains(e.Args[0].K, "NewStore") {
						// value: BaseDir of the new dir, sent after the store to s.dir
						swapped := false
						for _, e2 := range s.Events[:i] {
							if e2.Kind == "store" && e2.Args[0].Op == "fieldaddr" && e2.Args[0].Aux == "dir" {
								swapped = true
								if strings.Contains(e.Args[1].K, e2.Args[1].K) {
									okSend = true
								}
							}
						}
						if !swapped {
							bad = append(bad, "new store path sent before the configuration is swapped")
						}
					}
				}
			})
			if !okSend {
				bad = append(bad, "reload does not send the new base directory to the hooks goroutine")
			}
		}
		c.Check(len(bad) == 0 && n >= 2, "C19.4", "hooks-store-path|writers", "-", "store/dir of the hooks caller are written only by the constructor and the loop's store case; reload sends the new base directory after the swap", strings.Join(uniqS(bad), "; "))
	}
}
