package rules

import (
	"fmt"
	"go/token"
	"go/types"
	"sort"
	"strings"

	"golang.org/x/tools/go/ssa"

	"verif/checker/internal/an"
)

// ---- the route table of the web API: which handler chain serves each registered route ----
//
// A registration (mux.Handle / mux.HandleFunc / http.Handle(Func), the Handler of an http.Server, the handler argument
// of http.Serve / ListenAndServe…) names a value. That value is followed back through everything that merely passes a
// handler on — conversions (http.HandlerFunc), interface boxing, local variables, parameters and results of module
// functions (route helpers such as api(h), factories), struct literals with a handler field — to the chain of LAYERS
// that run per request: each layer is a function that is handed the request and hands it to the next layer (a library
// wrapper such as http.StripPrefix or http.TimeoutHandler, a module middleware, the webHandler adapter calling its H
// field), and the chain ends in the module handler(s) or in a library handler (file server, redirect, a nested mux).
// Every layer is read from its SSA — module and library alike — to see HOW it hands the request on (layerScan).

// HandlerLayer is one function between the registration and the handler that finally serves a route.
type HandlerLayer struct {
	Name   string          // "net/http.TimeoutHandler", "main.logRequests$1", "(main.webHandler).ServeHTTP"
	Lib    bool            // library code
	Serve  *ssa.Function   // the function that runs per request for this layer
	Site   ssa.Instruction // where the layer is put on the route (wrapper call / closure creation), may be nil
	Async  []string        // reasons why the next layer does not run (only) inside this layer's own call
	Early  []string        // module layers: an answer is written before the next layer is called
	Opaque []string        // parts that could not be analysed
	NDeleg int             // hand-over sites found
}

// WebRoute is one registration with its resolved handler chain.
type WebRoute struct {
	Pattern    string
	Site       ssa.Instruction
	In         *ssa.Function
	Layers     []HandlerLayer  // outermost first (first seen first)
	Handlers   []*ssa.Function // module functions at the end of the chain
	Terminals  []string        // library handlers at the end of the chain
	Unresolved []string
}

func (r *WebRoute) layerNames() []string {
	var out []string
	for _, l := range r.Layers {
		out = append(out, l.Name)
	}
	return out
}

var webRoutesMemo = map[*an.Prog][]*WebRoute{}

var httpRegistrations = map[string]int{ // callee -> index of the handler argument
	"(*net/http.ServeMux).Handle": 2, "(*net/http.ServeMux).HandleFunc": 2,
	"net/http.Handle": 1, "net/http.HandleFunc": 1,
	"net/http.ListenAndServe": 1, "net/http.ListenAndServeTLS": 3, "net/http.Serve": 1, "net/http.ServeTLS": 1,
}

// webRoutes finds every registration in cmd/whawty-auth and resolves its handler chain.
func webRoutes(p *an.Prog) []*WebRoute {
	if r, ok := webRoutesMemo[p]; ok {
		return r
	}
	var out []*WebRoute
	for _, fn := range p.RepoFns {
		if an.FnPkgPath(fn) != mainPkg {
			continue
		}
		for _, b := range fn.Blocks {
			for _, in := range b.Instrs {
				switch x := in.(type) {
				case ssa.CallInstruction:
					name := an.CalleeName(x)
					idx, ok := httpRegistrations[name]
					if !ok || idx >= len(x.Common().Args) {
						continue
					}
					// a registration inside a loop over a literal table (`for _, rt := range webRoutes { mux.Handle(…) }`)
					// is one registration per row
					binds := []map[rowKey]int{nil}
					if key, n, ok := tableLoopAt(p, in); ok {
						binds = nil
						for i := 0; i < n; i++ {
							binds = append(binds, map[rowKey]int{key: i})
						}
					}
					for _, bind := range binds {
						r := &WebRoute{Site: in, In: fn, Pattern: "(server)"}
						if strings.Contains(name, "Handle") {
							r.Pattern = "?"
							if pat, ok := constStringAt(p, x.Common().Args[idx-1], bind); ok {
								r.Pattern = pat
							}
						}
						hv := x.Common().Args[idx]
						if k, ok := hv.(*ssa.Const); ok && k.IsNil() {
							r.Terminals = append(r.Terminals, "http.DefaultServeMux")
						} else {
							(&hres{p: p, r: r, seen: map[string]bool{}, rows: bind}).resolve(hv, nil, 0)
						}
						out = append(out, r)
					}
				case *ssa.Store:
					fa, ok := x.Addr.(*ssa.FieldAddr)
					if !ok || !isNamed(fa.X.Type(), "net/http", "Server") || fieldNameOf(fa) != "Handler" {
						continue
					}
					r := &WebRoute{Site: in, In: fn, Pattern: "(server)"}
					if k, ok := x.Val.(*ssa.Const); ok && k.IsNil() {
						r.Terminals = append(r.Terminals, "http.DefaultServeMux")
					} else {
						(&hres{p: p, r: r, seen: map[string]bool{}}).resolve(x.Val, nil, 0)
					}
					out = append(out, r)
				}
			}
		}
	}
	sort.SliceStable(out, func(i, j int) bool { return p.InstrPos(out[i].Site) < p.InstrPos(out[j].Site) })
	webRoutesMemo[p] = out
	return out
}

// henv binds the parameters of one module function to the arguments of the call through which the value was reached.
type henv struct {
	fn   *ssa.Function
	args []ssa.Value
	up   *henv
}

type hres struct {
	p    *an.Prog
	r    *WebRoute
	seen map[string]bool
	rows map[rowKey]int // the registration is being expanded for this row of the literal table its loop ranges over
}

func (h *hres) unresolved(what string) {
	for _, u := range h.r.Unresolved {
		if u == what {
			return
		}
	}
	h.r.Unresolved = append(h.r.Unresolved, what)
}

func (h *hres) terminal(what string) {
	for _, u := range h.r.Terminals {
		if u == what {
			return
		}
	}
	h.r.Terminals = append(h.r.Terminals, what)
}

func valPos(p *an.Prog, v ssa.Value) string {
	if in, ok := v.(ssa.Instruction); ok {
		return p.InstrPos(in)
	}
	if v.Pos().IsValid() {
		return p.Pos(v.Pos())
	}
	return v.Name()
}

// isHandlerType: http.Handler, http.HandlerFunc, or any function type that takes an http.ResponseWriter.
func isHandlerType(t types.Type) bool {
	if t == nil {
		return false
	}
	if n, ok := t.(*types.Named); ok && n.Obj().Pkg() != nil && n.Obj().Pkg().Path() == "net/http" && (n.Obj().Name() == "Handler" || n.Obj().Name() == "HandlerFunc") {
		return true
	}
	if sig, ok := t.Underlying().(*types.Signature); ok {
		for i := 0; i < sig.Params().Len(); i++ {
			if pt, ok := sig.Params().At(i).Type().(*types.Named); ok && pt.Obj().Pkg() != nil && pt.Obj().Pkg().Path() == "net/http" && pt.Obj().Name() == "ResponseWriter" {
				return true
			}
		}
	}
	return false
}

// serveMethod: the ServeHTTP method of the concrete type t, if it has one.
func serveMethod(p *an.Prog, t types.Type) *ssa.Function {
	ms := p.SSA.MethodSets.MethodSet(t)
	for i := 0; i < ms.Len(); i++ {
		if ms.At(i).Obj().Name() == "ServeHTTP" {
			return p.SSA.MethodValue(ms.At(i))
		}
	}
	return nil
}

// resolve follows a handler-typed value to the layers and handlers it denotes.
func (h *hres) resolve(v ssa.Value, env *henv, depth int) {
	if v == nil {
		return
	}
	if depth > 120 {
		h.unresolved("handler value nested too deeply at " + valPos(h.p, v))
		return
	}
	key := fmt.Sprintf("%p|%p", v, env)
	if h.seen[key] {
		return
	}
	h.seen[key] = true
	switch x := v.(type) {
	case *ssa.Const:
		return // nil on a failing path
	case *ssa.ChangeType:
		h.resolve(x.X, env, depth+1)
	case *ssa.ChangeInterface:
		h.resolve(x.X, env, depth+1)
	case *ssa.TypeAssert:
		h.resolve(x.X, env, depth+1)
	case *ssa.MakeInterface:
		h.resolveConcrete(x.X, env, depth+1)
	case *ssa.Function:
		h.serve(x, nil, nil, env, depth+1)
	case *ssa.MakeClosure:
		h.serve(x.Fn.(*ssa.Function), x, nil, env, depth+1)
	case *ssa.Phi:
		for _, e := range x.Edges {
			h.resolve(e, env, depth+1)
		}
	case *ssa.Parameter:
		h.resolveParam(x, env, depth)
	case *ssa.FreeVar:
		h.resolveFreeVar(x, env, depth)
	case *ssa.UnOp:
		if x.Op != token.MUL {
			h.unresolved("handler value computed at " + valPos(h.p, v))
			return
		}
		h.resolveLoad(x.X, env, depth)
	case *ssa.Field:
		h.resolveField(x.X, x.X.Type(), x.Field, env, depth)
	case *ssa.Index:
		// an element of a literal table (array) of handlers / middlewares read by value
		vals, ok := rowValues(h.p, x, h.rows)
		if !ok {
			h.unresolved("handler read from an element of an array that is not a literal table at " + valPos(h.p, v))
			return
		}
		for _, e := range vals {
			h.resolve(e, env, depth+1)
		}
	case *ssa.Extract:
		if c, ok := x.Tuple.(*ssa.Call); ok {
			h.resolveCall(c, x.Index, env, depth)
			return
		}
		h.unresolved("handler value taken from a tuple at " + valPos(h.p, v))
	case *ssa.Call:
		h.resolveCall(x, 0, env, depth)
	default:
		h.unresolved(fmt.Sprintf("handler value of kind %T at %s", v, valPos(h.p, v)))
	}
}

// resolveConcrete: x is the concrete value boxed into an http.Handler.
func (h *hres) resolveConcrete(x ssa.Value, env *henv, depth int) {
	t := x.Type()
	if m := serveMethod(h.p, t); m != nil {
		if _, isSig := t.Underlying().(*types.Signature); !isSig {
			if h.p.InRepo(m) || (m.Synthetic != "" && strings.HasPrefix(an.FnPkgPath(m), an.Module)) {
				// a module type with its own ServeHTTP (an adapter such as webHandler, or a middleware type)
				h.serve(m, nil, x, env, depth+1)
				return
			}
			if isNamed(t, "net/http", "ServeMux") {
				h.terminal("a *http.ServeMux (its own registrations are routes of this table)")
				return
			}
			// a library type: where the value comes from decides (a wrapper call, a constructor)
			h.resolve(x, env, depth+1)
			return
		}
	}
	// http.HandlerFunc(f) and other function types: the function is the handler
	h.resolve(x, env, depth+1)
}

func (h *hres) resolveParam(prm *ssa.Parameter, env *henv, depth int) {
	g := prm.Parent()
	idx := -1
	for i, q := range g.Params {
		if q == prm {
			idx = i
		}
	}
	for e := env; e != nil; e = e.up {
		if e.fn == g {
			if idx >= 0 && idx < len(e.args) {
				h.resolve(e.args[idx], e.up, depth+1)
				return
			}
		}
	}
	// not reached through a call of g: every call site of g
	vals := paramArgs(h.p, prm)
	if len(vals) == 0 {
		h.unresolved("handler parameter " + prm.Name() + " of " + fnKey(g) + " (no call site found)")
		return
	}
	for _, a := range vals {
		h.resolve(a, nil, depth+1)
	}
}

// paramArgs: the values bound to parameter prm at every call site of its function (VTA call graph).
func paramArgs(p *an.Prog, prm *ssa.Parameter) []ssa.Value {
	g := prm.Parent()
	idx := -1
	for i, q := range g.Params {
		if q == prm {
			idx = i
		}
	}
	if idx < 0 {
		return nil
	}
	var out []ssa.Value
	for _, e := range p.Callers(g, false) {
		if e.Site == nil {
			continue
		}
		cc := e.Site.Common()
		switch {
		case cc.IsInvoke():
			if idx == 0 {
				out = append(out, cc.Value)
			} else if idx-1 < len(cc.Args) {
				out = append(out, cc.Args[idx-1])
			}
		case len(cc.Args) == len(g.Params):
			out = append(out, cc.Args[idx])
		default:
			return nil // bound method values and the like: not followed
		}
	}
	return out
}

// closureBindings: the values captured for free variable fv wherever its closure is created.
func closureBindings(fv *ssa.FreeVar) []ssa.Value {
	g := fv.Parent()
	par := g.Parent()
	if par == nil {
		return nil
	}
	idx := -1
	for i, q := range g.FreeVars {
		if q == fv {
			idx = i
		}
	}
	var out []ssa.Value
	for _, b := range par.Blocks {
		for _, in := range b.Instrs {
			if mc, ok := in.(*ssa.MakeClosure); ok && mc.Fn == ssa.Value(g) && idx >= 0 && idx < len(mc.Bindings) {
				out = append(out, mc.Bindings[idx])
			}
		}
	}
	return out
}

func (h *hres) resolveFreeVar(fv *ssa.FreeVar, env *henv, depth int) {
	bs := closureBindings(fv)
	if len(bs) == 0 {
		h.unresolved("captured handler variable " + fv.Name() + " of " + fnKey(fv.Parent()))
		return
	}
	for _, b := range bs {
		if _, isPtr := b.Type().Underlying().(*types.Pointer); isPtr && !isHandlerType(b.Type()) {
			// captured by reference: the variable's cell
			h.resolveLoad(b, env, depth)
			continue
		}
		h.resolve(b, env, depth+1)
	}
}

// resolveLoad: the value read from address a (a local variable, a captured variable, a struct field, a package variable).
func (h *hres) resolveLoad(a ssa.Value, env *henv, depth int) {
	switch x := a.(type) {
	case *ssa.Alloc:
		n := 0
		for _, r := range *x.Referrers() {
			if st, ok := r.(*ssa.Store); ok && st.Addr == ssa.Value(x) {
				n++
				h.resolve(st.Val, env, depth+1)
			}
		}
		// the cell may also be written inside closures that capture it
		for _, r := range *x.Referrers() {
			if mc, ok := r.(*ssa.MakeClosure); ok {
				g := mc.Fn.(*ssa.Function)
				for i, b := range mc.Bindings {
					if b == ssa.Value(x) && i < len(g.FreeVars) {
						for _, rr := range *g.FreeVars[i].Referrers() {
							if st, ok := rr.(*ssa.Store); ok && st.Addr == ssa.Value(g.FreeVars[i]) {
								n++
								h.resolve(st.Val, env, depth+1)
							}
						}
					}
				}
			}
		}
		if n == 0 {
			if _, isStruct := derefT(x.Type()).Underlying().(*types.Struct); isStruct {
				// a struct literal loaded as a whole (webHandler{…} boxed by value)
				h.resolveConcreteStruct(x, env, depth)
				return
			}
			h.unresolved("handler variable at " + valPos(h.p, a) + " is never assigned")
		}
	case *ssa.FreeVar:
		for _, b := range closureBindings(x) {
			h.resolveLoad(b, env, depth+1)
		}
		for _, rr := range *x.Referrers() {
			if st, ok := rr.(*ssa.Store); ok && st.Addr == ssa.Value(x) {
				h.resolve(st.Val, env, depth+1)
			}
		}
	case *ssa.FieldAddr:
		h.resolveField(x.X, x.X.Type(), x.Field, env, depth)
	case *ssa.IndexAddr:
		// an element of a literal table of handlers / middlewares
		vals, ok := rowValues(h.p, x, h.rows)
		if !ok {
			h.unresolved("handler read from an element of a slice/array that is not a literal table at " + valPos(h.p, a))
			return
		}
		for _, v := range vals {
			h.resolve(v, env, depth+1)
		}
	case *ssa.Global:
		n := 0
		for _, f := range h.p.RepoFns {
			for _, b := range f.Blocks {
				for _, in := range b.Instrs {
					if st, ok := in.(*ssa.Store); ok && st.Addr == ssa.Value(x) {
						n++
						h.resolve(st.Val, nil, depth+1)
					}
				}
			}
		}
		if n == 0 {
			h.unresolved("package variable " + x.Name() + " holding a handler is never assigned in the module")
		}
	default:
		h.unresolved(fmt.Sprintf("handler read through %T at %s", a, valPos(h.p, a)))
	}
}

// resolveConcreteStruct: a struct value held in local cell al is used as a handler by value.
func (h *hres) resolveConcreteStruct(al *ssa.Alloc, env *henv, depth int) {
	t := derefT(al.Type())
	if m := serveMethod(h.p, t); m != nil {
		h.serve(m, nil, al, env, depth+1)
		return
	}
	h.unresolved("struct value at " + valPos(h.p, al) + " used as a handler has no ServeHTTP")
}

// literalCell: the local cell a struct value/pointer was built in, if recv is such a literal (&T{…}, T{…} loaded).
func literalCell(recv ssa.Value) *ssa.Alloc {
	for i := 0; i < 4 && recv != nil; i++ {
		switch x := recv.(type) {
		case *ssa.Alloc:
			return x
		case *ssa.UnOp:
			if x.Op == token.MUL {
				recv = x.X
				continue
			}
		case *ssa.ChangeType:
			recv = x.X
			continue
		case *ssa.MakeInterface:
			recv = x.X
			continue
		}
		return nil
	}
	return nil
}

// resolveField: the handler held by field `field` of struct type t — of the literal base was built in when that is
// known, otherwise of every object of the type (every store to that field in the module).
func (h *hres) resolveField(base ssa.Value, t types.Type, field int, env *henv, depth int) {
	T := derefT(t)
	if cell := literalCell(base); cell != nil && types.Identical(derefT(cell.Type()), T) {
		n := 0
		for _, r := range *cell.Referrers() {
			if fa, ok := r.(*ssa.FieldAddr); ok && fa.Field == field {
				for _, rr := range *fa.Referrers() {
					if st, ok := rr.(*ssa.Store); ok && st.Addr == ssa.Value(fa) {
						n++
						h.resolve(st.Val, env, depth+1)
					}
				}
			}
		}
		if n > 0 {
			return
		}
		// a spilled receiver (value receiver copied into a local): fall through to the whole type
	}
	// the handler column of a literal table row (or of the loop variable the row was copied into)
	if vals, ok := rowFieldValues(h.p, base, field, h.rows); ok {
		for _, v := range vals {
			h.resolve(v, env, depth+1)
		}
		return
	}
	fv := fieldValues(h.p, T, field)
	if len(fv.vals) == 0 {
		h.unresolved(fmt.Sprintf("handler field %s of %s is never assigned", fieldName(T, field), T.String()))
		return
	}
	for _, v := range fv.vals {
		e := env
		if in, ok := v.(ssa.Instruction); ok && env != nil && in.Parent() != env.fn {
			e = envFor(env, in.Parent())
		}
		h.resolve(v, e, depth+1)
	}
}

// envFor: the binding frame of function f (or of a function f is nested in) on the chain, if any.
func envFor(env *henv, f *ssa.Function) *henv {
	for g := f; g != nil; g = g.Parent() {
		for e := env; e != nil; e = e.up {
			if e.fn == g {
				return e
			}
		}
	}
	return nil
}

func fieldName(T types.Type, i int) string {
	if st, ok := T.Underlying().(*types.Struct); ok && i < st.NumFields() {
		return st.Field(i).Name()
	}
	return fmt.Sprint(i)
}

// resolveCall: result idx of a call.
func (h *hres) resolveCall(c *ssa.Call, idx int, env *henv, depth int) {
	cc := c.Common()
	var gs []*ssa.Function
	if g := cc.StaticCallee(); g != nil {
		gs = []*ssa.Function{g}
	} else if !cc.IsInvoke() {
		gs = funcValues(h.p, cc.Value, 0)
	}
	if len(gs) == 0 {
		h.unresolved("handler returned by a call that cannot be resolved at " + h.p.InstrPos(c))
		return
	}
	for _, g := range gs {
		if !h.p.InRepo(g) {
			h.libCall(c, g, env, depth)
			continue
		}
		ne := &henv{fn: g, args: cc.Args, up: env}
		n := 0
		for _, b := range g.Blocks {
			if r, ok := b.Instrs[len(b.Instrs)-1].(*ssa.Return); ok && idx < len(r.Results) {
				n++
				h.resolve(r.Results[idx], ne, depth+1)
			}
		}
		if n == 0 {
			h.unresolved("module function " + fnKey(g) + " returns no handler")
		}
	}
}

// libCall: a library function returned the handler. With handler-typed arguments it is a wrapper around them (its
// per-request function is read from its own SSA); without, it is where the chain ends.
func (h *hres) libCall(c *ssa.Call, g *ssa.Function, env *henv, depth int) {
	var inner []ssa.Value
	for _, a := range c.Common().Args {
		if isHandlerType(a.Type()) {
			inner = append(inner, a)
		}
	}
	name := an.FnName(g)
	if len(inner) == 0 {
		h.terminal(name + "(…)")
		return
	}
	serves := libServeFns(h.p, g)
	if len(serves) == 0 {
		h.addLayer(HandlerLayer{Name: name, Lib: true, Site: c, Opaque: []string{"the per-request function of the handler " + name + " returns could not be determined"}})
	}
	for _, s := range serves {
		l := layerScan(h.p, s)
		l.Name, l.Lib, l.Site = name, true, c
		if l.NDeleg == 0 {
			l.Opaque = append(l.Opaque, "no call of the wrapped handler found in "+an.FnName(s))
		}
		h.addLayer(l)
	}
	for _, a := range inner {
		h.resolve(a, env, depth+1)
	}
}

// libServeFns: the functions that serve a request for the handler a library constructor returns.
func libServeFns(p *an.Prog, g *ssa.Function) []*ssa.Function {
	var out []*ssa.Function
	seen := map[*ssa.Function]bool{}
	var from func(v ssa.Value, d int)
	from = func(v ssa.Value, d int) {
		if d > 6 {
			return
		}
		switch x := v.(type) {
		case *ssa.MakeInterface:
			if _, isSig := x.X.Type().Underlying().(*types.Signature); isSig {
				from(x.X, d+1)
				return
			}
			if m := serveMethod(p, x.X.Type()); m != nil && !seen[m] {
				seen[m] = true
				out = append(out, m)
			}
		case *ssa.ChangeType:
			from(x.X, d+1)
		case *ssa.MakeClosure:
			if f := x.Fn.(*ssa.Function); !seen[f] {
				seen[f] = true
				out = append(out, f)
			}
		case *ssa.Function:
			if !seen[x] {
				seen[x] = true
				out = append(out, x)
			}
		case *ssa.Phi:
			for _, e := range x.Edges {
				from(e, d+1)
			}
		case *ssa.Call:
			if c := x.Common().StaticCallee(); c != nil && an.FnPkgPath(c) == an.FnPkgPath(g) {
				for _, b := range c.Blocks {
					if r, ok := b.Instrs[len(b.Instrs)-1].(*ssa.Return); ok && len(r.Results) > 0 {
						from(r.Results[0], d+1)
					}
				}
			}
		}
	}
	for _, b := range g.Blocks {
		if r, ok := b.Instrs[len(b.Instrs)-1].(*ssa.Return); ok && len(r.Results) > 0 {
			from(r.Results[0], 0)
		}
	}
	return out
}

func (h *hres) addLayer(l HandlerLayer) {
	for _, o := range h.r.Layers {
		if o.Name == l.Name && o.Serve == l.Serve {
			return
		}
	}
	h.r.Layers = append(h.r.Layers, l)
}

// serve: module (or library) function f runs per request at this point of the chain: mc is the closure creation when f
// is a closure, recv the receiver value when f is a ServeHTTP method. If f hands the request to another handler value
// it is a layer and the chain continues with that value; otherwise it is where the chain ends.
func (h *hres) serve(f *ssa.Function, mc *ssa.MakeClosure, recv ssa.Value, env *henv, depth int) {
	if f == nil {
		return
	}
	if !h.p.InRepo(f) && !strings.HasPrefix(an.FnPkgPath(f), an.Module) {
		h.terminal(an.FnName(f))
		return
	}
	if f.Synthetic != "" && len(f.Blocks) > 0 {
		// promoted / pointer-receiver wrapper of a module method: the declared method
		for _, b := range f.Blocks {
			for _, in := range b.Instrs {
				if c, ok := in.(*ssa.Call); ok {
					if g := c.Common().StaticCallee(); g != nil && g.Name() == f.Name() && h.p.InRepo(g) {
						h.serve(g, nil, recv, env, depth+1)
						return
					}
				}
			}
		}
	}
	l := layerScan(h.p, f)
	if l.NDeleg == 0 && len(l.Opaque) == 0 {
		for _, o := range h.r.Handlers {
			if o == f {
				return
			}
		}
		h.r.Handlers = append(h.r.Handlers, f)
		return
	}
	l.Name = fnKey(f)
	if mc != nil {
		l.Site = mc
	}
	h.addLayer(l)
	for _, d := range layerDelegates(h.p, f) {
		switch x := d.(type) {
		case *ssa.UnOp:
			if fa, ok := x.X.(*ssa.FieldAddr); ok && recv != nil && x.Op == token.MUL {
				h.resolveField(recv, fa.X.Type(), fa.Field, env, depth+1)
				continue
			}
		case *ssa.Field:
			if recv != nil {
				h.resolveField(recv, x.X.Type(), x.Field, env, depth+1)
				continue
			}
		}
		h.resolve(d, env, depth+1)
	}
}

// ---- how a layer hands the request on ----

// handOver: instruction in is a call that hands the request to another handler VALUE (not a statically known
// function): an invoke of ServeHTTP on an http.Handler, a call through a function value that takes a ResponseWriter,
// or (http.HandlerFunc).ServeHTTP(f, …). Returns the handler value.
func handOver(in ssa.Instruction) ssa.Value {
	ci, ok := in.(ssa.CallInstruction)
	if !ok {
		return nil
	}
	cc := ci.Common()
	if cc.IsInvoke() {
		if cc.Method.Name() == "ServeHTTP" {
			return cc.Value
		}
		return nil
	}
	if g := cc.StaticCallee(); g != nil {
		if g.Name() == "ServeHTTP" && len(cc.Args) > 0 && isHandlerType(cc.Args[0].Type()) {
			if _, isSig := cc.Args[0].Type().Underlying().(*types.Signature); isSig {
				return cc.Args[0]
			}
		}
		return nil
	}
	if _, isB := cc.Value.(*ssa.Builtin); isB {
		return nil
	}
	if isHandlerType(cc.Value.Type()) {
		return cc.Value
	}
	return nil
}

type layerSite struct {
	in    ssa.Instruction
	fn    *ssa.Function
	async string // non-empty: the site does not run inside the layer's own call
}

// layerWalk visits f and everything it runs in its own package — statically called functions (depth-limited), its
// function literals — and tells for each instruction whether it runs inside f's own call (synchronously: plain and
// deferred calls) or outside it (started with `go`, or inside a function literal that is handed on as a value).
func layerWalk(p *an.Prog, f *ssa.Function, visit func(in ssa.Instruction, g *ssa.Function, async string)) {
	pkg := an.FnPkgPath(f)
	maxDepth := 5
	if !p.InRepo(f) {
		maxDepth = 2 // a library wrapper: its per-request function, its literals and the helpers those call
	}
	type key struct {
		g     *ssa.Function
		async bool
	}
	seen := map[key]bool{}
	var walk func(g *ssa.Function, async string, depth int)
	walk = func(g *ssa.Function, async string, depth int) {
		if g == nil || len(g.Blocks) == 0 || depth > maxDepth || seen[key{g, async != ""}] {
			return
		}
		seen[key{g, async != ""}] = true
		for _, b := range g.Blocks {
			for _, in := range b.Instrs {
				visit(in, g, async)
				switch x := in.(type) {
				case *ssa.Go:
					why := "started in a goroutine of its own (`go` at " + p.InstrPos(in) + ")"
					if async != "" {
						why = async
					}
					if c := x.Common().StaticCallee(); c != nil && an.FnPkgPath(c) == pkg {
						walk(c, why, depth+1)
					}
				case ssa.CallInstruction: // *ssa.Call, *ssa.Defer
					if c := x.Common().StaticCallee(); c != nil && an.FnPkgPath(c) == pkg && handOver(in) == nil {
						walk(c, async, depth+1)
					}
				case *ssa.MakeClosure:
					// a function literal that is not simply called/deferred/go'ne here: it runs whenever whoever gets it
					// calls it
					cf := x.Fn.(*ssa.Function)
					onlyCalled := true
					for _, r := range *x.Referrers() {
						ci, ok := r.(ssa.CallInstruction)
						if !ok || ci.Common().Value != ssa.Value(x) {
							if _, isDbg := r.(*ssa.DebugRef); !isDbg {
								onlyCalled = false
							}
						}
					}
					if !onlyCalled {
						why := "inside a function literal that is handed on as a value at " + p.InstrPos(in)
						if async != "" {
							why = async
						}
						walk(cf, why, depth+1)
					}
				}
			}
		}
	}
	walk(f, "", 0)
}

// layerDelegates: the handler values f (and what it runs) hands the request to.
func layerDelegates(p *an.Prog, f *ssa.Function) []ssa.Value {
	var out []ssa.Value
	seen := map[ssa.Value]bool{}
	layerWalk(p, f, func(in ssa.Instruction, g *ssa.Function, async string) {
		if v := handOver(in); v != nil && !seen[v] {
			seen[v] = true
			out = append(out, v)
		}
	})
	return out
}

var earlyAnswerCalls = map[string]bool{
	"invoke net/http.ResponseWriter.WriteHeader": true, "invoke net/http.ResponseWriter.Write": true,
	"net/http.Error": true, "net/http.NotFound": true, "net/http.Redirect": true, mainPkg + ".sendWebResponse": true,
}

// layerScan reads function f as a layer of a handler chain.
func layerScan(p *an.Prog, f *ssa.Function) HandlerLayer {
	l := HandlerLayer{Serve: f}
	inRepo := p.InRepo(f)
	var syncSites []ssa.Instruction
	layerWalk(p, f, func(in ssa.Instruction, g *ssa.Function, async string) {
		if v := handOver(in); v != nil {
			l.NDeleg++
			if _, isGo := in.(*ssa.Go); isGo {
				async = "started in a goroutine of its own (`go` at " + p.InstrPos(in) + ")"
			}
			if async != "" {
				l.Async = append(l.Async, "the next handler is called at "+p.InstrPos(in)+" in "+an.FnName(g)+", "+async)
			} else if g == f {
				syncSites = append(syncSites, in)
			}
			return
		}
		if !inRepo {
			return
		}
		// module layers: a store request sent outside the layer's own call
		if ci, ok := in.(ssa.CallInstruction); ok {
			if c := ci.Common().StaticCallee(); c != nil && c.Signature.Recv() != nil && isNamed(c.Signature.Recv().Type(), mainPkg, "Store") {
				if _, isGo := in.(*ssa.Go); isGo {
					async = "started in a goroutine of its own (`go` at " + p.InstrPos(in) + ")"
				}
				if async != "" {
					l.Async = append(l.Async, "Store."+c.Name()+" is called at "+p.InstrPos(in)+" in "+an.FnName(g)+", "+async)
				}
			}
		}
	})
	if inRepo {
		// nothing is answered before the next layer has run: no status/body is written on a path into the hand-over
		for _, site := range syncSites {
			er := an.EnumPaths(f, nil, site, func(s *an.PathState) {
				for _, e := range s.Events {
					if e.Kind == "call" && earlyAnswerCalls[e.Callee] {
						l.Early = append(l.Early, shortName(e.Callee)+" at "+p.InstrPos(e.In)+" runs before the next handler is called at "+p.InstrPos(site))
					}
				}
			})
			if !er.Complete {
				l.Opaque = append(l.Opaque, "path limit in "+fnKey(f))
			}
		}
	}
	l.Async, l.Early = uniqS(l.Async), uniqS(l.Early)
	return l
}
